"""C17 - The WTML and the returned data-set description match the files on disk.

R1 path == template: for each naming scheme, the file path built for (level, x, y) equals
   base/ + scheme{1->level, 2->x, 3->y} + '.' + format; holes are separated by literals (injective)
R2 Builder: file_type = '.' + default format; url = scheme + file_type (constructor and WWTL reload)
R3 tile levels recorded = depth at which the deepest tiles are written (study / TOAST / FITS auto-tiler:
   one depth for the whole collection)
R4 every index_rel.wtml emitter is preceded by a step that fills the image set
R5 FitsTiler.tile: every returning path passes a populate step (tiling, HiPS properties, or loading the
   existing index); override removes the stale directory before tiling
"""
import ast

from sa import sym, boolalg, template
from sa.sym import show, num, num_value, atoms_of
from sa.cfg import CFG, enclosing_stmts
from sa.model import dotted, own_calls, own_nodes, callee_attr, inline_helpers
from . import common

PYR = "toasty.pyramid"
BLD = "toasty.builder"
FT = "toasty.fits_tiler"

EXPLANATION = (
    "The string built by each path builder is abstractly interpreted into a template (literals and holes for level, x, y, "
    "format) and compared with the expansion of the scheme string chosen in the same branch of PyramidIO.__init__, using "
    "the WWT placeholder convention {1}=level, {2}=x, {3}=y and the binding performed by tile_path; adjacent holes must be "
    "separated by a literal so that distinct positions give distinct paths. Builder's file_type/url, the tile-level "
    "bookkeeping of the study and TOAST workflows, the emitters of index_rel.wtml (must-pass-through of a populate step), "
    "and the exits of the FITS auto-tiler (reuse / override histories) are decided on terms and CFG paths."
)

MANIFEST = {
    "technique": "static analysis: template-string abstract interpretation of path builders vs URL scheme, must-pass-through queries on emitters and on the auto-tiler's exits, loop-invariance of the recorded depth, tiling-geometry premises shared with C08, memo-key dependence and key-spelling consistency; who-may-write of the recorded Url; decorator caches of file readers; concrete evaluation of tile_path and of the published template per naming scheme over a grid of positions and formats (string evaluation of the path term), independence of the template from the directory; option forwarding of add_place_for_toast; emitters judged inside their callers; dispatch through tables of method names; index writer / loader round trip: every child list the writer can produce (truth-table enumeration of its tests) interpreted by the loader's loop; CFG path query: no tiling step is reachable from an existing output directory except through its removal",
    "text": "Decides for all positions at once (symbolically) that written paths equal the expansion of the recorded URL template under both naming schemes, that file type / tile levels are derived from what is written, and that every way of emitting or returning a description passes through a step that fills it (fresh, repeated, override).",
    "note": "Trusted: os.path.join / str.format / str() semantics; wwt_data_formats serialises ImageSet fields faithfully; WWT expands {1},{2},{3} as level, x, y.",
}

POPULATE_BUILDER = {"prepare_study_tiling", "tile_base_as_study", "toast_base", "load_from_wwtl"}
POPULATE_OTHER = {"compute_global_pixelization", "process", "_tile_hips", "_tile_toast", "_tile_tan", "_copy_hips_properties_to_builder", "_load_builder_from_index"}


def run(run):
    run.explanation = EXPLANATION
    run.assumptions += ["WWT clients expand {1}, {2}, {3} in the Url attribute as level, x, y"]
    for r, n in (("C17.R1", 3), ("C17.R2", 2), ("C17.R3", 3), ("C17.R4", 7), ("C17.R5", 2), ("C17.R6", 1)):
        run.floor(r, n)
    _r1_paths(run)
    _r2_builder(run)
    _r2_url_writers(run)
    _r3_levels(run)
    # the level recorded for a (sub-)tiling is the level its tiles are written at: a sub-image tiling must share the
    # geometry of the mosaic it belongs to (decided by C08's geometry rule)
    from . import C08 as c08
    from . import common as _common
    _common.delegate(run, "C17.R3", "C08", c08.geometry_premises, only_rules={"C08.R4"}, note="premise: TileLevels of a multi-image mosaic")
    _r4_emitters(run)
    # the TOAST description carries a Place exactly when the user asked for one: the setting reaches the writer
    common.option_forwarding(run, "C17.R4", "add_place_for_toast", {FT, BLD},
                             "so the index_rel.wtml of a TOAST pyramid comes out without (or with) a Place regardless of what was asked for")
    _r5_fits_tiler(run)
    _r5_no_tiling_into_existing(run)
    _r5_roundtrip(run)
    # the description handed back on the reuse path is what the directory's index says *now*: no remembered copy that can
    # survive a rewrite of the directory
    from . import memo
    n_tab = memo.check_module(run, "C17.R6", FT)
    if not memo.selfcheck():
        run.undecided("C17.R6", None, None, "memo rule self-check failed", kind="selfcheck", construct="<memo selfcheck>")
    if not [o for o in run.obs if o.rule == "C17.R6"]:
        run.holds("C17.R6", run.project.fn(FT + ".FitsTiler.tile"), None, "toasty.fits_tiler keeps no module-level / class-level table (%d uses); positive example flagged" % n_tab)


SCHEMES = ("L/Y/YX", "LXY")            # the two naming schemes PyramidIO documents (confirmed by hand)


def _r1_paths(run, rule="C17.R1"):
    """Decided on values, not on the shape of the dispatch: for each naming scheme the constructor's state is substituted into
    tile_path (helpers, bound-method slots and tables followed) and the resulting path expression is evaluated for a grid of
    positions and formats; it must be  <base>/<WTML template of get_path_scheme() with {1}=level, {2}=x, {3}=y>.<format> , and
    different positions must get different paths."""
    project = run.project
    from sa.teval import teval, UNKNOWN, RAISES
    init = project.fn(PYR + ".PyramidIO.__init__")
    tp = project.fn(PYR + ".PyramidIO.tile_path")
    gs = project.fn(PYR + ".PyramidIO.get_path_scheme")
    run.note_func(init, tp, gs)
    ev = sym.make_evaluator(project, PYR, [], inline_local=True)
    ev.self_class = PYR + ".PyramidIO"
    ev.inline_resolved = True
    ev.no_inline = ("makedirs", "read_image", "write_image")
    pos = ("sym", tp.params()[1])
    grid = [(n, x, y) for n in (1, 11) for x in (0, 1, 11, 23) for y in (0, 1, 11, 23) if (x, y) != (0, 0)][:24] + [(0, 0, 0), (5, 3, 7), (12, 4000, 17)]
    for S in SCHEMES:
        ri = ev.run(init.node, args={"scheme": ("const", S), "default_format": ("const", "png")})
        if [e for e in ri.events if e.kind == "raise" and not [c for c in e.pc if c[0] != "loop"]]:
            run.undecided(rule, init, None, "PyramidIO(scheme=%r) raises: the documented scheme is gone" % S, kind="scheme-missing", scheme=S)
            continue
        facts = {k: v for k, v in (ri.env or {}).items() if isinstance(k, tuple) and k[0] == "attr" and k[1] == ("sym", "self")}
        rt = ev.run(tp.node, env=facts, args={"makedirs": ("const", False)})
        rg = ev.run(gs.node, env=facts)
        rets = [r for r in rt.returns]
        if len(rets) != 1 or len(rg.returns) != 1:
            run.undecided(rule, tp, None, "scheme %r: tile_path has %d results, get_path_scheme %d" % (S, len(rets), len(rg.returns)), kind="path-shape", scheme=S)
            continue
        path_t, tmpl_t = rets[0][1], rg.returns[0][1]
        verdict = None
        # the template must not depend on where the pyramid lives: a plain directory name and one made of characters that
        # also occur in tile names
        tmpls = []
        for base in ("B", "out/L1/1"):
            tm = teval(tmpl_t, {("attr", ("sym", "self"), "_base_dir"): base, ("sym", init.params()[1]): base})
            tmpls.append(tm)
        if not all(isinstance(tm, str) for tm in tmpls):
            run.undecided(rule, gs, None, "scheme %r: get_path_scheme() is %s, cannot be evaluated to a template" % (S, show(tmpl_t)[:80]), kind="template-shape", scheme=S)
            continue
        if tmpls[0] != tmpls[1]:
            run.violated(rule, gs, rg.returns[0][2], "scheme %r: the WTML template depends on the pyramid's directory: %r for a pyramid in 'B' but %r for one in 'out/L1/1'" % (
                S, tmpls[0], tmpls[1]), kind="template-depends-on-dir", scheme=S)
            continue
        tmpl = tmpls[0]
        base_syms = {("attr", ("sym", "self"), "_base_dir"): "B", ("sym", init.params()[1]): "B"}
        seen = {}
        for fmt in (None, "fits"):
            for (n, x, y) in grid:
                envt = dict(base_syms)
                envt.update({("attr", pos, "n"): n, ("attr", pos, "x"): x, ("attr", pos, "y"): y, ("sym", "format"): fmt})
                got = teval(path_t, envt)
                if got is UNKNOWN or got is RAISES or not isinstance(got, str):
                    verdict = ("undecided", "cannot evaluate the path %s" % show(path_t)[:120])
                    break
                try:
                    want = "B/" + tmpl.format(None, n, x, y) + "." + (fmt or "png")
                except Exception:
                    verdict = ("undecided", "the template %r cannot be expanded with {1}, {2}, {3}" % tmpl)
                    break
                import posixpath
                if posixpath.normpath(got) != posixpath.normpath(want):
                    verdict = ("violated", "path-vs-template", "with scheme %r the tile (n=%d, x=%d, y=%d)%s is stored at %s, but the WTML template %r that is published for the "
                               "pyramid expands (with {1}=level, {2}=x, {3}=y) to %s: a client asking for a position gets another tile's file, or none" % (
                                   S, n, x, y, "" if fmt is None else " in format %r" % fmt, got, tmpl, want))
                    break
                if fmt is None:
                    if got in seen and seen[got] != (n, x, y):
                        verdict = ("violated", "path-not-injective", "with scheme %r the tiles %s and %s share the path %s" % (S, seen[got], (n, x, y), got))
                        break
                    seen[got] = (n, x, y)
            if verdict:
                break
        if verdict is None:
            run.holds(rule, tp, rets[0][2], "scheme %r: tile_path(pos, format) == base/ + %r expanded with (level, x, y) + '.' + format on %d positions x 2 formats; paths distinct" % (
                S, tmpl, len(grid)), scheme=S)
        elif verdict[0] == "undecided":
            run.undecided(rule, tp, rets[0][2], "scheme %r: %s" % (S, verdict[1]), kind="path-eval", scheme=S)
        else:
            run.violated(rule, tp, rets[0][2], verdict[2], kind=verdict[1], scheme=S)
    run.holds(rule, gs, None, "get_path_scheme() evaluated together with tile_path under each scheme's constructor state")


def _r2_builder(run):
    project = run.project
    ev = sym.make_evaluator(project, BLD, [])
    ev.self_class = BLD + ".Builder"
    for q, pio in ((BLD + ".Builder.__init__", ("sym", "pio")), (BLD + ".Builder.load_from_wwtl", ("attr", ("sym", "self"), "pio"))):
        f = project.fn(q)
        run.note_func(f)
        r = ev.run(f.node)
        st = {}
        for e in r.events:
            if e.kind == "store" and e.term[1][0][0] == "attr" and e.term[1][0][2] in ("file_type", "url"):
                st[e.term[1][0][2]] = (e.term[1][1], e)
        ft_want = ("op", "concat", (("const", "."), ("call", ("attr", pio, "get_default_format"), (), ())))
        url_want = ("op", "concat", (("call", ("attr", pio, "get_path_scheme"), (), ()), ("const", "."), ("call", ("attr", pio, "get_default_format"), (), ())))
        ft = st.get("file_type", (None, None))[0]
        url = st.get("url", (None, None))[0]
        if ft != ft_want:
            run.violated("C17.R2", f, st.get("file_type", (None, None))[1].node if "file_type" in st else None,
                         "%s records FileType %s; the tiles' extension is '.' + pio.get_default_format()" % (f.short, show(ft)[:80] if ft else "nothing"), kind="file-type")
        elif url is None or template.template(url) != template.template(url_want):
            run.violated("C17.R2", f, st["url"][1].node if "url" in st else None, "%s records Url %s; expected pio.get_path_scheme() + file_type" % (f.short, show(url)[:100] if url else "nothing"),
                         kind="url")
        else:
            run.holds("C17.R2", f, None, "%s: file_type = '.' + default format; url = path scheme + file_type" % f.short)


def _r2_url_writers(run):
    """Who may write the image set's Url / FileType: besides the two Builder sites decided above, any store into `<imageset>.url`
    or `.file_type` anywhere in the package must record the same thing (path scheme + file type) -- a literal or otherwise
    derived Url no longer expands to the paths the tiles were written to under every naming scheme."""
    project = run.project
    checked = {BLD + ".Builder.__init__", BLD + ".Builder.load_from_wwtl"}
    # one named exception: HiPS pyramids are produced by the external `hipsgen` program in the HiPS directory layout
    # (Norder/Dir/Npix), not by PyramidIO; their Url is that layout by definition
    foreign_layout = {"toasty.fits_tiler.FitsTiler._copy_hips_properties_to_builder"}
    evs = {}
    for f in project.py_funcs():
        if f.qual in checked or "/tests/" in f.module.relpath:
            continue
        sites = [n for n in own_nodes(f.node) if isinstance(n, (ast.Assign, ast.AugAssign))
                 for t in (n.targets if isinstance(n, ast.Assign) else [n.target])
                 if isinstance(t, ast.Attribute) and t.attr in ("url", "file_type") and "imgset" in (dotted(t.value) or "").lower().replace("image_set", "imgset").replace("imageset", "imgset")]
        if not sites:
            continue
        run.note_func(f)
        if f.qual in foreign_layout:
            run.holds("C17.R2", f, sites[0], "%s records the layout of tiles written by an external tool (HiPS): outside PyramidIO's naming schemes" % f.short)
            continue
        ev = evs.setdefault(f.module.name, sym.make_evaluator(project, f.module.name, []))
        r = ev.run(f.node)
        for e in r.events:
            if e.kind != "store" or e.term[1][0][0] != "attr" or e.term[1][0][2] not in ("url", "file_type"):
                continue
            v = e.term[1][1]
            ok = False
            if e.term[1][0][2] == "url" and v[0] == "op" and v[1] == "concat":
                parts = v[2]
                ok = len(parts) >= 2 and parts[0][0] == "call" and parts[0][1][0] == "attr" and parts[0][1][2] == "get_path_scheme" \
                    and all((p_[0] == "attr" and p_[2] == "file_type") or p_ == ("const", ".") or (p_[0] == "call" and p_[1][0] == "attr" and p_[1][2] == "get_default_format")
                            for p_ in parts[1:])
            if e.term[1][0][2] == "file_type" and v[0] == "op" and v[1] == "concat":
                ok = len(v[2]) == 2 and v[2][0] == ("const", ".") and v[2][1][0] == "call" and v[2][1][1][0] == "attr" and v[2][1][1][2] == "get_default_format"
            if ok:
                run.holds("C17.R2", f, e.node, "%s records %s as scheme + file type" % (f.short, e.term[1][0][2]))
            else:
                conds = [show(c[0])[:50] for c in e.pc if c[0] != "loop"]
                run.violated("C17.R2", f, e.node, "%s overwrites the image set's %s with %s%s: it is no longer `pio.get_path_scheme() + file_type`, so under some naming "
                             "scheme the WTML points at files that were not written" % (f.short, e.term[1][0][2], show(v)[:80], (" under %s" % conds) if conds else ""),
                             kind="url-overwritten")


def _r3_levels(run):
    project = run.project
    # study
    f = project.fn("toasty.study.StudyTiling.apply_to_imageset")
    run.note_func(f)
    ev = sym.make_evaluator(project, "toasty.study", [])
    r = ev.run(f.node)
    st = [e for e in r.events if e.kind == "store" and e.term[1][0][0] == "attr" and e.term[1][0][2] == "tile_levels"]
    g = project.fn("toasty.study.StudyTiling.generate_populated_positions")
    rg = ev.run(g.node)
    lvl_written = rg.yields[0][1][1][0][2][0] if rg.yields and rg.yields[0][1][0] == "tuple" and rg.yields[0][1][1][0][0] == "nt" else None
    if st and st[0].term[1][1] == ("attr", ("sym", "self"), "_tile_levels") and lvl_written == ("attr", ("sym", "self"), "_tile_levels"):
        run.holds("C17.R3", f, st[0].node, "study: TileLevels = self._tile_levels = level of the positions written")
    else:
        run.violated("C17.R3", f, st[0].node if st else None, "study: imgset.tile_levels is %s while tiles are written at level %s" % (
            show(st[0].term[1][1])[:40] if st else "never set", show(lvl_written)[:40] if lvl_written else "?"), kind="study-levels")
    # TOAST: toast_base
    f = project.fn(BLD + ".Builder.toast_base")
    run.note_func(f)
    evb = sym.make_evaluator(project, BLD, [])
    evb.self_class = BLD + ".Builder"            # describing the pyramid may be a private helper method of the builder
    evb.no_inline = ("cascade", "write_index_rel_wtml", "create_wtml_folder", "make_thumbnail_from_other", "set_name")
    r = evb.run(f.node)
    depth = ("sym", f.params()[2])
    st = [e for e in r.events if e.kind == "store" and e.term[1][0][0] == "attr" and e.term[1][0][2] == "tile_levels"]
    samp = [e for e in r.events if e.kind == "call" and e.term[1] in (("sym", "sample_layer"), ("sym", "sample_layer_filtered"))]
    ok_d = all((dict(e.term[3]).get("depth") == depth) or (len(e.term[2]) >= 3 and e.term[2][2] == depth) for e in samp) and len(samp) == 2
    if st and st[0].term[1][1] == depth and ok_d:
        run.holds("C17.R3", f, st[0].node, "TOAST: TileLevels = depth handed to sample_layer / sample_layer_filtered")
    else:
        run.violated("C17.R3", f, st[0].node if st else None, "TOAST: imgset.tile_levels is %s but the layer is sampled at depth %s" % (
            show(st[0].term[1][1])[:40] if st else "never set", show(depth)), kind="toast-levels")
    c = project.fn(BLD + ".Builder.cascade")
    rc = evb.run(c.node)
    cc = [e for e in rc.events if e.kind == "call" and e.term[1] == ("sym", "cascade_images")]
    if cc and len(cc[0].term[2]) >= 2 and cc[0].term[2][1] == ("attr", ("attr", ("sym", "self"), "imgset"), "tile_levels"):
        run.holds("C17.R3", c, cc[0].node, "cascade starts from the recorded tile_levels")
    else:
        run.violated("C17.R3", c, None, "cascade does not start at imgset.tile_levels", kind="cascade-start")
    # FITS auto-tiler TOAST: one depth for the whole collection
    f = project.fn(FT + ".FitsTiler._tile_toast")
    run.note_func(f)
    evf = sym.make_evaluator(project, FT, [])
    r = evf.run(f.node)
    tb = [e for e in r.events if e.kind == "call" and e.term[1][0] == "attr" and e.term[1][2] == "toast_base"]
    if not tb:
        run.undecided("C17.R3", f, None, "_tile_toast does not call toast_base", kind="no-toast-base")
    else:
        e = tb[0]
        d = e.term[2][1] if len(e.term[2]) > 1 else dict(e.term[3]).get("depth")
        loop_ks = [c[1] for c in e.pc if c[0] == "loop"]
        dep = False
        for k in loop_ks:
            it = [it for kk, it, n in r.loops if kk == k]
            if it and d is not None and (("elem", it[0]) in atoms_of(d) or any(a[0] == "sym" and ("@L%d" % k) in a[1] for a in atoms_of(d))):
                dep = True
        if d is None:
            run.undecided("C17.R3", f, e.node, "depth argument of toast_base not found", kind="toast-depth")
        elif dep:
            run.violated("C17.R3", f, e.node, "the sampling depth handed to toast_base is decided per input image (%s): inputs of different pixel scale are sampled at "
                         "different depths and TileLevels ends up as the last input's depth, not the deepest populated layer" % show(d)[:80], kind="depth-per-image")
        else:
            run.holds("C17.R3", f, e.node, "FITS auto-tiler (TOAST): one depth for every input of the collection")


def _dynamic_populate_calls(project, f):
    """Calls through a method looked up by name -- `tiler = getattr(self, self._TILERS.get(method, "_tile_tan")); tiler(..)` --:
    {id(call node): True (every name the look-up can produce is a populate step) | None (names not determinable)}."""
    out = {}
    binds = {}
    for n in own_nodes(f.node):
        if isinstance(n, ast.Assign) and len(n.targets) == 1 and isinstance(n.targets[0], ast.Name) and isinstance(n.value, ast.Call) \
                and isinstance(n.value.func, ast.Name) and n.value.func.id == "getattr" and len(n.value.args) >= 2:
            binds[n.targets[0].id] = n.value
    def names_of(expr):
        names = {x.value for x in ast.walk(expr) if isinstance(x, ast.Constant) and isinstance(x.value, str)}
        ok = True
        for x in ast.walk(expr):
            if isinstance(x, ast.Attribute) and isinstance(x.value, ast.Name) and x.value.id in ("self", "cls") and x.attr.isupper() or \
                    (isinstance(x, ast.Attribute) and isinstance(x.value, ast.Name) and x.value.id in ("self", "cls") and x.attr.startswith("_") and x.attr[1:].isupper()):
                tab = None
                if f.cls is not None:
                    for m in f.cls.body:
                        if isinstance(m, ast.Assign) and len(m.targets) == 1 and isinstance(m.targets[0], ast.Name) and m.targets[0].id == x.attr and isinstance(m.value, ast.Dict):
                            tab = m.value
                if tab is None:
                    ok = False
                else:
                    for v in tab.values:
                        if isinstance(v, ast.Constant) and isinstance(v.value, str):
                            names.add(v.value)
                        else:
                            ok = False
        return names if ok else None
    for c in own_calls(f.node):
        g = None
        if isinstance(c.func, ast.Name) and c.func.id in binds:
            g = binds[c.func.id]
        elif isinstance(c.func, ast.Call) and isinstance(c.func.func, ast.Name) and c.func.func.id == "getattr" and len(c.func.args) >= 2:
            g = c.func
        if g is None:
            continue
        nm = names_of(g.args[1])
        if nm:
            out[id(c)] = True if all(x in POPULATE_BUILDER or x in POPULATE_OTHER for x in nm) else None
        else:
            out[id(c)] = None
    return out


def _r4_emitters(run):
    project = run.project
    sites = []
    for f in project.py_funcs():
        for c in own_calls(f.node):
            if callee_attr(c) == "write_index_rel_wtml":
                sites.append((f, c))
    run.call_sites += len(sites)
    # a private helper whose only job is the writing ("_write_index") is judged inside the functions that call it
    from sa.model import inline_helpers
    expanded = []
    for f, c in sites:
        has_pop = any(callee_attr(cc) in POPULATE_BUILDER or callee_attr(cc) in POPULATE_OTHER for cc in own_calls(f.node))
        callers = [g for g in project.py_funcs() if g is not f and g.module.kind == "py" and any(common.resolve_callee(project, g, cc) is not None
                   and common.resolve_callee(project, g, cc).qual == f.qual for cc in own_calls(g.node))]
        if not has_pop and callers and f.name.startswith("_"):
            for g in callers:
                g2 = inline_helpers(project, g, lambda owner, call, _f=f: (lambda t: t if (t is not None and t.qual == _f.qual) else None)(common.resolve_callee(project, owner, call)))
                for cc in own_calls(g2.node):
                    if callee_attr(cc) == "write_index_rel_wtml":
                        expanded.append((g2, cc))
        else:
            expanded.append((f, c))
    sites = expanded
    for f, c in sites:
        run.note_func(f)
        cfg = CFG(f.node)
        cn = cfg.node_containing(c)
        pops = set()
        dyn = _dynamic_populate_calls(project, f)
        unknown_dispatch = None
        for n in cfg.nodes:
            for cc in cfg.calls_at(n):
                a = callee_attr(cc)
                if a in POPULATE_BUILDER or a in POPULATE_OTHER or dyn.get(id(cc)) is True:
                    pops.add(n.id)
                elif id(cc) in dyn and dyn[id(cc)] is None:
                    unknown_dispatch = cc
        if cn is None:
            continue
        if unknown_dispatch is not None and (not pops or cn.id in cfg.reachable(cfg.entry.id, avoid=pops, skip_labels=("exc",))):
            run.undecided("C17.R4", f, unknown_dispatch, "%s calls a method looked up by a computed name (%s): cannot tell whether it fills the image set" % (
                f.short, ast.unparse(unknown_dispatch.func)[:60]), kind="emit-dynamic-dispatch")
            continue
        if not pops:
            run.violated("C17.R4", f, c, "%s writes index_rel.wtml without any step that fills the image set (tiling / astrometry)" % f.short, kind="emit-without-populate")
        elif cn.id in cfg.reachable(cfg.entry.id, avoid=pops, skip_labels=("exc",)):
            run.violated("C17.R4", f, c, "%s can write index_rel.wtml on a path that skipped every populate step" % f.short, kind="emit-path-without-populate")
        else:
            run.holds("C17.R4", f, c, "%s: index_rel.wtml is written only after a populate step" % f.short)


def _r5_fits_tiler(run):
    project = run.project
    f = project.fn(FT + ".FitsTiler.tile")
    run.note_func(f)
    cfg = CFG(f.node)
    assign_b = [n for n in cfg.nodes if n.kind == "stmt" and isinstance(n.ast, ast.Assign) and any(dotted(t) == "self.builder" for t in n.ast.targets)]
    pops = set()
    dyn = _dynamic_populate_calls(project, f)
    unknown_dispatch = [cc for n in cfg.nodes for cc in cfg.calls_at(n) if id(cc) in dyn and dyn[id(cc)] is None]
    for n in cfg.nodes:
        for cc in cfg.calls_at(n):
            if callee_attr(cc) in POPULATE_OTHER | POPULATE_BUILDER or id(cc) in dyn:
                pops.add(n.id)          # (a dispatch whose names are not determinable is reported below, not as a violation)
    # a procedure-like helper of the tiler (`self._reuse_existing_out_dir(..)`) every normal path of which passes a populate step
    # is a populate step itself (two levels of helpers are followed)
    def _always_populates(h, depth=0):
        hc = CFG(h.node)
        hp = set()
        for m in hc.nodes:
            for cc in hc.calls_at(m):
                if callee_attr(cc) in POPULATE_OTHER | POPULATE_BUILDER:
                    hp.add(m.id)
                elif depth < 2:
                    g2 = common.resolve_callee(project, h, cc)
                    if g2 is not None and g2.module.kind == "py" and g2.cls is h.cls and g2 is not h and _always_populates(g2, depth + 1):
                        hp.add(m.id)
        return bool(hp) and hc.exit.id not in hc.reachable(hc.entry.id, avoid=hp, skip_labels=("exc",))
    for n in cfg.nodes:
        for cc in cfg.calls_at(n):
            if n.id in pops or callee_attr(cc) in POPULATE_OTHER | POPULATE_BUILDER:
                continue
            h = common.resolve_callee(project, f, cc)
            if h is not None and h.module.kind == "py" and h.cls is f.cls and h is not f and _always_populates(h):
                run.note_func(h)
                pops.add(n.id)
    # `if self._reuse_existing(...): return`: a helper that answers "reused" (a true value) only after it has restored the builder
    # fills it on exactly the paths where its caller believes it -- the true branch of the test starts filled
    for n in cfg.nodes:
        if n.kind != "if":
            continue
        t = n.ast.test
        neg = False
        while isinstance(t, ast.UnaryOp) and isinstance(t.op, ast.Not):
            neg, t = not neg, t.operand
        if not isinstance(t, ast.Call):
            continue
        h = common.resolve_callee(project, f, t)
        if h is None or h.module.kind != "py":
            continue
        hc = CFG(h.node)
        hpops = {m.id for m in hc.nodes for cc in hc.calls_at(m) if callee_attr(cc) in POPULATE_OTHER | POPULATE_BUILDER}
        rets = [m for m in hc.nodes if m.kind == "return"]
        truthy = [m for m in rets if m.ast.value is not None and not (isinstance(m.ast.value, ast.Constant) and not m.ast.value.value)]
        if not hpops or not truthy:
            continue
        unfilled = hc.reachable(hc.entry.id, avoid=hpops, skip_labels=("exc",))
        if any(m.id in unfilled for m in truthy):
            continue            # it can answer "reused" without having filled anything
        run.note_func(h)
        for j, lab in cfg.succ[n.id]:
            if lab == ("F" if neg else "T"):
                pops.add(j)
    if not assign_b:
        run.undecided("C17.R5", f, None, "FitsTiler.tile never assigns self.builder", kind="no-builder")
        return
    bad = None
    for b in assign_b:
        r = cfg.reachable(b.id, avoid=pops, skip_labels=("exc",))
        if cfg.exit.id in r:
            # find the offending return
            for n in cfg.nodes:
                if n.kind == "return" and n.id in r:
                    bad = n
            bad = bad or b
    if bad is None and unknown_dispatch:
        run.undecided("C17.R5", f, unknown_dispatch[0], "FitsTiler.tile fills the builder through a method looked up by a computed name (%s): not followed" %
                      ast.unparse(unknown_dispatch[0].func)[:60], kind="fill-dynamic-dispatch")
        return
    if bad is not None:
        conds = [ast.unparse(s.test)[:40] + ("" if blk == "body" else " is false") for s, blk in enclosing_stmts(f.node, bad.ast) if isinstance(s, ast.If)]
        run.violated("C17.R5", f, bad.ast, "return at line %d is reached (via %s) with self.builder freshly constructed and no step that fills it: the description handed "
                     "back (tile levels 0, no astrometry) disagrees with the index_rel.wtml already in the directory" % (bad.line, conds), kind="return-unfilled-builder")
    else:
        run.holds("C17.R5", f, assign_b[0].ast, "every return after constructing the builder passes a tiling step, the HiPS properties loader or the index loader")
    # override: the stale directory is removed before tiling (possibly in a private helper of the tiler)
    ev = sym.make_evaluator(project, FT, [])
    ev.self_class = FT + ".FitsTiler"
    ev.no_inline = ("_tile_tan", "_tile_toast", "_tile_hips", "_load_builder_from_index", "_copy_hips_properties_to_builder", "_default_out_dir")
    r = ev.run(f.node)
    rm = [e for e in r.events if e.kind == "call" and show(e.term[1]) in ("shutil.rmtree",)]
    ok = False
    pio_dirs = [e.term[2][0] for e in r.events if e.kind == "call" and show(e.term[1]).endswith("PyramidIO") and e.term[2]]
    for e in rm:
        conds = [c for c in e.pc if c[0] != "loop"]
        target = e.term[2][0] if e.term[2] else None
        isdir = [c[0] for c in conds if c[1] and c[0][0] == "call" and show(c[0][1]) in ("os.path.isdir", "os.path.exists") and c[0][2]]
        is_out = target is not None and (target == ("attr", ("sym", "self"), "out_dir") or target in pio_dirs)
        if is_out and boolalg.implies(boolalg.conj(conds), ("sym", "override")) is True and any(c[2][0] == target for c in isdir):
            ok = True
    if ok:
        run.holds("C17.R5", f, rm[0].node, "override: the existing output directory is removed before tiling (no stale deeper layers)")
    else:
        run.violated("C17.R5", f, None, "with override=True an existing output directory is no longer removed before tiling: tiles of an earlier, deeper pyramid stay on "
                     "disk below the new TileLevels", kind="override-keeps-stale-tiles")
    # the reuse branch needs a populate on each sub-path: index loader must exist and raise or fill
    g = project.funcs.get(FT + ".FitsTiler._load_builder_from_index")
    if g is not None:
        run.note_func(g)
        rg = ev.run(g.node)
        sets = [e for e in rg.events if e.kind == "store" and e.term[1][0][0] == "attr" and e.term[1][0][2] in ("imgset", "place")]
        raises = [e for e in rg.events if e.kind == "raise"]
        if sets and raises:
            run.holds("C17.R5", g, None, "reuse: description restored from the directory's index_rel.wtml (or refused when there is none)")
        elif not sets:
            run.violated("C17.R5", g, None, "the index loader does not assign builder.imgset / builder.place", kind="index-loader")


# ---------------------------------------------------------------------------------------------------------------------
# reuse path: the index loader reads back what the index writer wrote


def _bool_eval(test, assign):
    """Evaluate the propositional structure of an if-test under a truth assignment of its atoms (keyed by ast.dump)."""
    if isinstance(test, ast.BoolOp):
        vals = [_bool_eval(v, assign) for v in test.values]
        return all(vals) if isinstance(test.op, ast.And) else any(vals)
    if isinstance(test, ast.UnaryOp) and isinstance(test.op, ast.Not):
        return not _bool_eval(test.operand, assign)
    return assign[ast.dump(test)]


def _bool_atoms(test, out):
    if isinstance(test, ast.BoolOp):
        for v in test.values:
            _bool_atoms(v, out)
    elif isinstance(test, ast.UnaryOp) and isinstance(test.op, ast.Not):
        _bool_atoms(test.operand, out)
    else:
        out.setdefault(ast.dump(test), test)


class _Undecided(Exception):
    pass


def _written_children(fnode):
    """All child lists (as tuples of 'ImageSet' / 'Place') the index writer can produce: the writer's body is run for every
    truth assignment of the atoms of its if-tests."""
    import itertools
    atoms = {}
    for n in own_nodes(fnode):
        if isinstance(n, ast.If):
            _bool_atoms(n.test, atoms)
        elif isinstance(n, (ast.For, ast.While, ast.Try)):
            raise _Undecided("the index writer contains a %s statement" % type(n).__name__)
    if len(atoms) > 6:
        raise _Undecided("too many conditions in the index writer")

    def kind(e):
        if isinstance(e, ast.Attribute) and isinstance(e.value, ast.Name) and e.value.id == "self":
            if "imgset" in e.attr or "imageset" in e.attr:
                return "ImageSet"
            if "place" in e.attr:
                return "Place"
        raise _Undecided("child %s of the written folder is neither the builder's image set nor its place" % ast.unparse(e)[:40])

    def is_children(e):
        return isinstance(e, ast.Attribute) and e.attr == "children"
    results = set()
    keys = sorted(atoms)
    for bits in itertools.product((False, True), repeat=len(keys)):
        assign = dict(zip(keys, bits))
        state = {"children": None}

        def run_block(body):
            for st in body:
                if isinstance(st, ast.If):
                    if run_block(st.body if _bool_eval(st.test, assign) else st.orelse) == "return":
                        return "return"
                elif isinstance(st, ast.Return):
                    return "return"
                elif isinstance(st, ast.Assign) and len(st.targets) == 1 and is_children(st.targets[0]):
                    if not isinstance(st.value, (ast.List, ast.Tuple)):
                        raise _Undecided("folder.children = %s" % ast.unparse(st.value)[:40])
                    state["children"] = [kind(e) for e in st.value.elts]
                elif isinstance(st, ast.AugAssign) and is_children(st.target):
                    if not isinstance(st.value, (ast.List, ast.Tuple)) or state["children"] is None:
                        raise _Undecided("folder.children += %s" % ast.unparse(st.value)[:40])
                    state["children"] += [kind(e) for e in st.value.elts]
                elif isinstance(st, ast.Expr) and isinstance(st.value, ast.Call) and isinstance(st.value.func, ast.Attribute) and is_children(st.value.func.value):
                    m = st.value.func.attr
                    if state["children"] is None:
                        raise _Undecided("folder.children.%s before the list is assigned" % m)
                    if m == "append" and len(st.value.args) == 1:
                        state["children"].append(kind(st.value.args[0]))
                    elif m == "insert" and len(st.value.args) == 2 and isinstance(st.value.args[0], ast.Constant) and st.value.args[0].value == 0:
                        state["children"].insert(0, kind(st.value.args[1]))
                    elif m == "extend" and len(st.value.args) == 1 and isinstance(st.value.args[0], (ast.List, ast.Tuple)):
                        state["children"] += [kind(e) for e in st.value.args[0].elts]
                    else:
                        raise _Undecided("folder.children.%s(...)" % m)
                elif any(is_children(x) for x in ast.walk(st) if isinstance(x, ast.Attribute)) and not isinstance(st, (ast.Return,)):
                    raise _Undecided("the child list is used in `%s`" % ast.unparse(st)[:50])
            return None
        run_block(fnode.body)
        if state["children"] is not None:
            results.add(tuple(state["children"]))
    return results


def _load_children(fnode, children):
    """Run the index loader's loop over a child list given by kinds; returns ('ok', [(target, value is the item, kind)]) or ('raise', line)."""
    loops = [n for n in own_nodes(fnode) if isinstance(n, ast.For) and isinstance(n.iter, ast.Attribute) and n.iter.attr == "children" and isinstance(n.target, ast.Name)]
    if len(loops) != 1:
        raise _Undecided("the index loader has no single loop over the folder's children")
    loop = loops[0]
    var = loop.target.id
    stores = []

    class _Break(Exception):
        pass

    class _Continue(Exception):
        pass

    class _Raise(Exception):
        pass

    def test_value(t, k):
        if isinstance(t, ast.BoolOp):
            vals = [test_value(v, k) for v in t.values]
            return all(vals) if isinstance(t.op, ast.And) else any(vals)
        if isinstance(t, ast.UnaryOp) and isinstance(t.op, ast.Not):
            return not test_value(t.operand, k)
        if isinstance(t, ast.Call) and isinstance(t.func, ast.Name) and t.func.id == "isinstance" and len(t.args) == 2 and isinstance(t.args[0], ast.Name) and t.args[0].id == var:
            classes = t.args[1].elts if isinstance(t.args[1], ast.Tuple) else [t.args[1]]
            return any((dotted(c) or "").split(".")[-1] == k for c in classes)
        raise _Undecided("the index loader tests `%s`" % ast.unparse(t)[:50])

    def run_block(body, k):
        for st in body:
            if isinstance(st, ast.If):
                run_block(st.body if test_value(st.test, k) else st.orelse, k)
            elif isinstance(st, ast.Assign):
                for tg in st.targets:
                    stores.append((ast.unparse(tg), isinstance(st.value, ast.Name) and st.value.id == var, k))
            elif isinstance(st, ast.Break):
                raise _Break()
            elif isinstance(st, ast.Continue):
                raise _Continue()
            elif isinstance(st, ast.Raise):
                raise _Raise(st.lineno)
            elif isinstance(st, (ast.Expr, ast.Pass)):
                continue
            else:
                raise _Undecided("the index loader's loop contains `%s`" % ast.unparse(st)[:50])
    try:
        broke = False
        for k in children:
            try:
                run_block(loop.body, k)
            except _Continue:
                continue
            except _Break:
                broke = True
                break
        if not broke and loop.orelse:
            run_block(loop.orelse, None)
    except _Raise as ex:
        return "raise", ex.args[0]
    return "ok", stores


def _slot_agreement(run, g):
    """The Place that is written carries the image set in a slot the index loader reads back: every `<place>.<x>_image_set` the
    builder ever stores its image set into (constructor, populate steps, index writer) is among the slots the loader takes the
    image set from - and a slot the loader reads is not emptied by the writer."""
    project = run.project
    stores, clears = {}, {}
    for f in project.functions_in(BLD):
        if f.cls is None or f.cls.name != "Builder" or f.module.kind != "py":
            continue
        for x in own_nodes(f.node):
            if isinstance(x, ast.Assign):
                for t in x.targets:
                    if isinstance(t, ast.Attribute) and t.attr.endswith("_image_set"):
                        if isinstance(x.value, ast.Constant) and x.value.value is None:
                            clears.setdefault(t.attr, (f, x))
                        else:
                            stores.setdefault(t.attr, (f, x))
    reads = {x.attr for x in own_nodes(g.node) if isinstance(x, ast.Attribute) and x.attr.endswith("_image_set") and isinstance(x.ctx, ast.Load)}
    if not stores or not reads:
        run.undecided("C17.R5", g, None, "cannot find the image-set slot of the Place on the writer side (%d) or the loader side (%d)" % (len(stores), len(reads)),
                      kind="index-slot")
        return
    bad = sorted(set(stores) - reads)
    emptied = sorted(set(clears) & reads)
    if bad:
        f, x = stores[bad[0]]
        run.violated("C17.R5", f, x, "%s stores the image set in the Place's `%s`, a slot the index loader never reads (it takes the image set from %s): on reuse of the "
                     "directory the returned description has no image set although index_rel.wtml records one" % (f.short, bad[0], ", ".join(sorted(reads))), kind="index-slot")
    elif emptied:
        f, x = clears[emptied[0]]
        run.violated("C17.R5", f, x, "%s empties the Place's `%s`, the slot the index loader takes the image set from" % (f.short, emptied[0]), kind="index-slot")
    else:
        run.holds("C17.R5", g, None, "the image set travels in `%s`, which the index loader reads back" % ", ".join(sorted(stores)))


def _r5_roundtrip(run):
    project = run.project
    w = project.funcs.get(BLD + ".Builder.create_wtml_folder")
    g = project.funcs.get(FT + ".FitsTiler._load_builder_from_index")
    if w is None or g is None:
        return
    run.note_func(w, g)
    _slot_agreement(run, g)
    try:
        lists = _written_children(w.node)
        if not lists:
            raise _Undecided("no assignment of the written folder's children found")
        for children in sorted(lists):
            outcome, info = _load_children(g.node, children)
            if outcome == "raise":
                run.violated("C17.R5", g, None, "the index loader refuses (raise at line %d) an index whose folder lists %s, which Builder.create_wtml_folder writes: "
                             "a directory tiled by this very code cannot be reused" % (info, list(children)), kind="index-roundtrip")
                return
            got_place = any(t.endswith(".place") and is_item and k == "Place" for t, is_item, k in info)
            got_imgset = any(t.endswith(".imgset") for t, is_item, k in info)
            if "Place" in children and not got_place:
                run.violated("C17.R5", g, None, "Builder.create_wtml_folder can write a folder listing %s, but the index loader does not restore the Place from it "
                             "(it stops before reaching it): on reuse the returned description has a default place (RA 0, Dec 0, zoom 0) while index_rel.wtml records the real one"
                             % list(children), kind="index-roundtrip")
                return
            if not got_imgset:
                run.violated("C17.R5", g, None, "the index loader does not restore the image set from a folder listing %s" % list(children), kind="index-roundtrip")
                return
        run.holds("C17.R5", g, None, "the index loader restores image set and place from each of the %d child lists the index writer can produce (%s)"
                  % (len(lists), sorted(lists)))
    except _Undecided as ex:
        run.undecided("C17.R5", g, None, "index writer / loader round trip: %s" % ex, kind="index-roundtrip-shape")



def _r5_no_tiling_into_existing(run):
    """FitsTiler.tile never generates tiles into an output directory that already exists: it removes it first (override), reuses
    it, or refuses.  Tiles of an earlier, deeper or otherwise different run would stay on disk next to an index that describes
    only the new ones.  Path query on the CFG of tile(): from the true arm of the `isdir(out_dir)` test no tiling step is
    reachable without passing the removal of the directory."""
    project = run.project
    f = project.fn(FT + ".FitsTiler.tile")
    TIL = ("_tile_hips", "_tile_toast", "_tile_tan")
    f = inline_helpers(project, f, lambda owner, call: None if callee_attr(call) in TIL else common.resolve_callee(project, owner, call))
    cfg = CFG(f.node)
    tiling = [n for n in cfg.nodes for cc in cfg.calls_at(n) if callee_attr(cc) in TIL]
    removal = {n.id for n in cfg.nodes for cc in cfg.calls_at(n) if (dotted(cc.func) or "").split(".")[-1] in ("rmtree", "removedirs", "rmdir")}
    tests = [x for x in own_nodes(f.node) if isinstance(x, ast.If) and any(
        isinstance(c, ast.Call) and (dotted(c.func) or "") in ("os.path.isdir", "os.path.exists") and c.args and isinstance(c.args[0], (ast.Name, ast.Attribute))
        and ast.unparse(c.args[0]).endswith("out_dir") for c in ast.walk(x.test))]
    tests = [x for x in tests if not isinstance(x.test, ast.BoolOp)] or tests
    if not tiling:
        run.undecided("C17.R5", f, None, "FitsTiler.tile: no call of the tiling steps found", kind="existing-dir")
        return
    if not tests:
        run.undecided("C17.R5", f, tiling[0].ast, "FitsTiler.tile does not test whether the output directory exists", kind="existing-dir")
        return
    t = tests[0]
    negated = isinstance(t.test, ast.UnaryOp) and isinstance(t.test.op, ast.Not)
    arm = t.orelse if negated else t.body
    if not arm or isinstance(t.test, ast.BoolOp):
        run.undecided("C17.R5", f, t, "the test of the existing output directory is not a plain if / if-not", kind="existing-dir")
        return
    start = cfg.node_of_stmt(arm[0])
    if start is None:
        run.undecided("C17.R5", f, t, "cannot locate the branch taken for an existing output directory", kind="existing-dir")
        return
    reach = cfg.reachable(start.id, avoid=removal, skip_labels=("exc",)) | {start.id}
    hit = [n for n in tiling if n.id in reach]
    if hit:
        run.violated("C17.R5", f, hit[0].ast, "FitsTiler.tile can reach %s with the output directory already existing and not removed: tiles left by an earlier run (deeper levels, "
                     "other images) stay on disk beside an index that describes only the new ones" % ", ".join(sorted({callee_attr(cc) for n in hit for cc in cfg.calls_at(n) if callee_attr(cc) in TIL})),
                     kind="tiles-into-existing-dir")
    else:
        run.holds("C17.R5", f, t, "the tiling steps are reached from an existing output directory only through its removal (reuse and refusal return / raise before them)")
