"""C08 - Study tiling is a lossless, centred partition of the image into 256-pixel tiles.

R1 count_populated_positions == number of tuples generated (same four range bounds)
R2 the generated tuples equal the documented specification, for a plain tiling and for a
   sub-image tiling (object-state substitution: the fields as left by __init__ /
   compute_for_subimage are substituted into the methods)
R3 tile_image: image/tile slices and their order in the fill call, both vertical parities
R4 geometry: power-of-two square, tile size/levels, centred offsets rounded down;
   sub-image tiling shares the parent's geometry and shifts x by x, y by y
R5 the bottom-up placement clones (multi_wcs serial/worker) agree with tile_image
R6 parity decisions derive from the written format (shared parity rule)
"""
import ast

from sa import sym, termdiff
from sa.sym import show, num, num_value, atoms_of
from sa.model import dotted, own_calls, own_nodes
from . import parity, common

ST = "toasty.study"

EXPLANATION = (
    "StudyTiling.__init__ and compute_for_subimage are evaluated abstractly to obtain the object's fields as canonical "
    "terms (plain tiling; sub-image tiling). Those field terms are substituted into count_populated_positions, "
    "generate_populated_positions and tile_image, and every generated tuple slot, the count and the five slices are "
    "compared with a specification written from the docstrings/property (global first/last pixel, tile ranges, "
    "max/min overlap, image- and tile-frame offsets, reversed row slice for bottom-up formats). A difference confined to "
    "polynomial leaves of an otherwise identical operator tree is a definite deviation (polynomial canonical forms are "
    "complete); a structural difference is reported as undecided. Pixel equality of reassembled tiles for all sizes is "
    "integer arithmetic over //, max, min that this normaliser does not decide by itself; the term equality with the "
    "specification is what is decided."
)

MANIFEST = {
    "technique": "static analysis: object-state substitution + abstract interpretation over canonical terms, compared with a specification term (polynomial differences are definite; other spellings are searched for a counterexample on a finite grid of image sizes); sibling clone agreement; parity/format rule; per-mode mask premises shared with C15; per-mode buffer layout classified by the library's own dtype table (shared with C15); data handed to the array writers of Image.save is the image's own array (value-preserving views only)",
    "text": "Decides that the tiling arithmetic (count, generated rectangles, slices, offsets, sub-image geometry) is term-equal to the documented specification for plain and sub-image tilings and both vertical parities. Does not execute any tiling.",
    "note": "Trusted: Python integer //, max, min, range, slice semantics; numpy slicing. Not decided: the specification itself partitions the image (a paper argument in DESIGN.md); codec round trips.",
}

SPEC_SRC = '''
def spec(gx0, gy0, nw, nh, levels):
    gx1 = gx0 + nw - 1
    gy1 = gy0 + nh - 1
    for ity in range(gy0 // 256, gy1 // 256 + 1):
        for itx in range(gx0 // 256, gx1 // 256 + 1):
            ox0 = max(itx * 256, gx0)
            oy0 = max(ity * 256, gy0)
            ox1 = min(itx * 256 + 255, gx1)
            oy1 = min(ity * 256 + 255, gy1)
            yield (Pos(levels, itx, ity), ox1 + 1 - ox0, oy1 + 1 - oy0, ox0 - gx0, oy0 - gy0, ox0 - itx * 256, oy0 - ity * 256)

def spec_count(gx0, gy0, nw, nh):
    return ((gy0 + nh - 1) // 256 + 1 - gy0 // 256) * ((gx0 + nw - 1) // 256 + 1 - gx0 // 256)
'''

SLOTS = ["pos", "width", "height", "image_x", "image_y", "tile_x", "tile_y"]


def run(run):
    run.explanation = EXPLANATION
    run.assumptions += ["Python int arithmetic; range(a, b) iterates a..b-1; slice(a, b[, -1]) semantics"]
    run.undecided_clauses += ["that the specification rectangles partition the image (paper argument)", "codec round trips of the written tiles"]
    for r, n in (("C08.R1", 2), ("C08.R2", 14), ("C08.R3", 5), ("C08.R4", 6), ("C08.R5", 2), ("C08.R6", 3)):
        run.floor(r, n)
    project = run.project
    ev = sym.make_evaluator(project, ST, [], inline_local=True, no_inline=("next_highest_power_of_2",))
    ev.self_class = ST + ".StudyTiling"
    ev.inline_resolved = True       # methods called on the freshly built sub-tiling object belong to compute_for_subimage
    ev.no_inline = tuple(ev.no_inline) + ("next_highest_power_of_2", "generate_populated_positions", "count_populated_positions", "tile_image",
                                           "apply_to_imageset", "image_to_tile", "write_image", "read_image", "update_image", "make_maskable_buffer", "clear",
                                           "update_into_maskable_buffer", "fill_into_maskable_buffer", "asarray", "get_default_vertical_parity_sign",
                                           "get_default_format", "get_parity_sign", "flip_parity", "tile_path")
    fields_a, fields_b = _object_states(run, ev)
    if fields_a is None:
        return
    fields_b = _drop_opaque_state(run, fields_b)
    _r4_geometry(run, ev, fields_a, fields_b)
    for label, fields in (("plain tiling", fields_a), ("sub-image tiling", fields_b)):
        if fields is not None:      # (the sub-image state could not be derived: already reported UNDECIDED)
            _r1_r2(run, ev, label, fields)
    _r3_tile_image(run, ev)
    _r5_clones(run)
    # "reads back exactly": Image.save writes the tile's own pixel array in the array formats (npy, fits)
    from . import imgrep
    imgrep.saved_pixels(run, "C08.R3")
    # a count (or anything else) remembered on the tiling object must be forgotten when the rectangle it was computed from changes
    from . import memo
    memo.check_attribute_caches(run, "C08.R1", ST)
    parity.check(run, "C08.R6", skip_classes=("ToastSampler", "TileMerger"))
    # "pixels outside the image are undefined": the tile buffer is pre-filled as a whole with the mode's undefined value
    # before the rectangle is copied in (decided by C15's per-mode convention rule)
    from . import C15 as c15
    from . import common as _common

    def conv(sub):
        members = c15._enum_members(sub.project)
        if len(members) >= 8:
            chains = c15._r1_chains(sub, members)
            c15._r2_conventions(sub, members, chains)
    _common.delegate(run, "C08.R3", "C15", conv, only_rules={"C15.R2"}, note="premise of 'pixels outside the image are undefined'")
    _common.delegate(run, "C08.R3", "C15", lambda sub: c15.buffer_layouts(sub, "C15.R7"), only_rules={"C15.R7"}, note="premise: a tile holds the image's pixels in their own type")


def _drop_opaque_state(run, state_b):
    """The sub-image state is usable only if its fields were followed to plain terms: a field that is still the result of a method of a
    record / helper object (`layout.subrange(..)`) says nothing, and comparing it with the specification would be a false alarm."""
    if state_b is None:
        return None
    from . import common as _common
    fb = state_b["fields"]
    for fld_ in ("_width", "_height", "_img_gx0", "_img_gy0", "_p2n", "_tile_levels"):
        if fld_ not in fb:
            continue
        bad = [u for u in _common.unfollowed_project_calls(run.project, fb[fld_]) if show(u[1]).split(".")[-1] not in ("next_highest_power_of_2",)] + \
              [x for x in _subterms_c08(fb[fld_]) if x[0] == "call" and x[1][0] == "attr" and x[1][1][0] in ("nt", "call") and x[1][2] not in ("get",)]
        if bad:
            cfs = run.project.fn(ST + ".StudyTiling.compute_for_subimage")
            run.undecided("C08.R4", cfs, None, "the sub-tiling's %s goes through %s, which is not followed: the sub-image scenario is not decided" % (fld_, show(bad[0])[:70]),
                          kind="subimage-opaque")
            return None
    return state_b


def geometry_premises(sub):
    """C08.R4 (tiling geometry, including 'a sub-image tiling shares its parent's padded square and levels') for use as a premise elsewhere."""
    ev = _study_evaluator(sub.project)
    fields_a, fields_b = _object_states(sub, ev)
    if fields_a is not None:
        _r4_geometry(sub, ev, fields_a, _drop_opaque_state(sub, fields_b))


def _study_evaluator(project):
    ev = sym.make_evaluator(project, ST, [], inline_local=True, no_inline=("next_highest_power_of_2",))
    ev.self_class = ST + ".StudyTiling"
    ev.inline_resolved = True       # methods called on the freshly built sub-tiling object belong to compute_for_subimage
    ev.no_inline = tuple(ev.no_inline) + ("next_highest_power_of_2", "generate_populated_positions", "count_populated_positions", "tile_image",
                                           "apply_to_imageset", "image_to_tile", "write_image", "read_image", "update_image", "make_maskable_buffer", "clear",
                                           "update_into_maskable_buffer", "fill_into_maskable_buffer", "asarray", "get_default_vertical_parity_sign",
                                           "get_default_format", "get_parity_sign", "flip_parity", "tile_path")
    return ev


SELF = ("sym", "self")


def _fld(name, base=SELF):
    return ("attr", base, name)


def _derived(project, ev, fields, need):
    """Fields that are not stored but computed by a @property of the same name from the stored ones (iterated: a
    property may use another); uses of such a property inside stored fields are replaced by its value."""
    out = dict(fields)
    props = {}
    for _ in range(3):
        for k in need:
            if k in out:
                continue
            g = project.funcs.get("%s.StudyTiling.%s" % (ST, k))
            if g is None or not any((dotted(d) or "").endswith("property") for d in g.node.decorator_list):
                continue
            env = {("attr", SELF, a): v for a, v in out.items()}
            rp = ev.run(g.node, env=env)
            if len(rp.returns) == 1:
                out[k] = rp.returns[0][1]
                props[("attr", SELF, k)] = out[k]
    if props:
        def sub(t):
            if t in props:
                return props[t]
            if isinstance(t, tuple):
                return tuple(sub(x) if isinstance(x, tuple) else x for x in t)
            return t
        for _ in range(3):
            out = {k: _renorm(ev, sub(v)) for k, v in out.items()}
    return out


NEED_FIELDS = ["_width", "_height", "_p2n", "_tile_size", "_tile_levels", "_img_gx0", "_img_gy0"]


def _object_states(run, ev):
    project = run.project
    init = project.fn(ST + ".StudyTiling.__init__")
    run.note_func(init)
    r = ev.run(init.node)
    fa = {}
    # class-level defaults are the state of a fresh object too (e.g. an empty `_cache = None`): whether something
    # remembered there can go stale is the attribute-cache rule's business, not the arithmetic's
    if init.cls is not None:
        for m in init.cls.body:
            if isinstance(m, ast.Assign) and len(m.targets) == 1 and isinstance(m.targets[0], ast.Name) and isinstance(m.value, ast.Constant):
                fa[m.targets[0].id] = ("const", m.value.value) if not isinstance(m.value.value, (int, float)) or isinstance(m.value.value, bool) else num(m.value.value)
    for e in r.events:
        if e.kind == "store" and e.term[1][0][0] == "attr" and e.term[1][0][1] == SELF:
            fa[e.term[1][0][2]] = e.term[1][1]
    need = ["_width", "_height", "_p2n", "_tile_size", "_tile_levels", "_img_gx0", "_img_gy0"]

    def derived(fields):
        return _derived(project, ev, fields, need)
    fa = derived(fa)
    if any(k not in fa for k in need):
        run.undecided("C08.R4", init, None, "StudyTiling.__init__ does not set %s" % [k for k in need if k not in fa], kind="init-fields")
        return None, None
    # sub-image: construct with the parent's size, then apply compute_for_subimage's stores
    cfs = project.fn(ST + ".StudyTiling.compute_for_subimage")
    run.note_func(cfs)
    rc = ev.run(cfs.node)
    ctor = [e for e in rc.events if e.kind == "call" and e.term[1] == ("sym", "StudyTiling")]
    copies = [e for e in rc.events if e.kind == "call" and show(e.term[1]).split(".")[-1] in ("copy", "deepcopy") and tuple(e.term[2]) == (SELF,)]
    if len(ctor) == 1:
        ct = ctor[0].term
        # parent fields: the parent's own fields are symbols self.<f>; the fresh object gets __init__ applied to the ctor args
        args = {"width": ct[2][0] if len(ct[2]) > 0 else None, "height": ct[2][1] if len(ct[2]) > 1 else None}
        for k, v in ct[3]:
            args[k] = v
    elif not ctor and len(copies) == 1:
        # a copy of the parent: for a parent that is a plain tiling (the documented use) its fields are what __init__ makes of
        # the parent's own width and height -- the same state as constructing StudyTiling(self._width, self._height)
        ctor = copies
        ct = copies[0].term
        args = {"width": ("attr", SELF, "_width"), "height": ("attr", SELF, "_height")}
    else:
        run.undecided("C08.R4", cfs, None, "compute_for_subimage does not construct exactly one StudyTiling", kind="subimage-ctor")
        return fa, None
    if args["width"] is None or args["height"] is None:
        run.undecided("C08.R4", cfs, ctor[0].node, "cannot bind the constructor arguments", kind="subimage-ctor-args")
        return fa, None
    r0 = ev.run(init.node, args={"width": args["width"], "height": args["height"]})
    f0 = {k: v for k, v in fa.items() if v[0] == "const" and k not in need}      # class-level defaults of a fresh object
    for e in r0.events:
        if e.kind == "store" and e.term[1][0][0] == "attr" and e.term[1][0][1] == SELF:
            f0[e.term[1][0][2]] = e.term[1][1]
    # uses of a property inside what the constructor stored are values of construction time, not of the time after the overrides below
    fb = dict(derived(f0))

    def subst(t):
        if isinstance(t, tuple):
            if len(t) == 3 and t[0] == "attr" and t[1] == ct and t[2] in fb:
                return fb[t[2]]
            return tuple(subst(x) if isinstance(x, tuple) else x for x in t)
        return t
    for e in rc.events:
        if e.kind == "store" and e.term[1][0][0] == "attr" and e.term[1][0][1] == ct:
            fb[e.term[1][0][2]] = _renorm(ev, subst(e.term[1][1]))
    # property-derived fields see the values the sub-tiling ends up with (after compute_for_subimage's stores)
    stored_b = {k: v for k, v in fb.items()}
    for k in need:
        g = project.funcs.get("%s.StudyTiling.%s" % (ST, k))
        if g is not None and any((dotted(d) or "").endswith("property") for d in g.node.decorator_list):
            stored_b.pop(k, None)
    fb = derived(stored_b)
    f0 = derived(f0)
    ret = rc.returns[-1][1] if rc.returns else None
    if ret != ct:
        run.violated("C08.R4", cfs, None, "compute_for_subimage returns %s, not the tiling it configured" % show(ret)[:80], kind="subimage-return")
    return fa, {"fields": fb, "ctor_args": args, "parent": True}


def _renorm(ev, t):
    """Re-normalise a term after substitution (polynomial arithmetic is redone)."""
    if not isinstance(t, tuple) or not t:
        return t
    if t[0] == "poly":
        acc = num(0)
        for mono, c in t[1]:
            term = num(c)
            for a, p in mono:
                a2 = _renorm(ev, a)
                if p >= 0:
                    term = sym.mul(term, sym.powi(a2, p))
                else:
                    term = sym.div(term, sym.powi(a2, -p))
            acc = sym.add(acc, term)
        return acc
    if isinstance(t[0], str):
        return (t[0],) + tuple(_renorm(ev, x) if isinstance(x, tuple) else x for x in t[1:])
    return tuple(_renorm(ev, x) if isinstance(x, tuple) else x for x in t)


def _spec_terms(ev, gx0, gy0, nw, nh, levels):
    tree = ast.parse(SPEC_SRC)
    fn = {n.name: n for n in tree.body if isinstance(n, ast.FunctionDef)}
    r = ev.run(fn["spec"], args={"gx0": gx0, "gy0": gy0, "nw": nw, "nh": nh, "levels": levels})
    rc = ev.run(fn["spec_count"], args={"gx0": gx0, "gy0": gy0, "nw": nw, "nh": nh})
    return r.yields[0][1], rc.returns[0][1], r


def _env_of(fields):
    return {_fld(k): v for k, v in fields.items()}


def _r1_r2(run, ev, label, state):
    project = run.project
    fields = state if "fields" not in state else state["fields"]
    env = _env_of(fields)
    gx0, gy0, nw, nh, lv = fields["_img_gx0"], fields["_img_gy0"], fields["_width"], fields["_height"], fields["_tile_levels"]
    if "fields" in state:
        # specification of a sub-image placed at (ix, iy) inside the parent: first = parent offset + origin, size = sub size
        cfs = project.fn(ST + ".StudyTiling.compute_for_subimage")
        ps = cfs.params()
        par = state["ctor_args"]
        init = project.fn(ST + ".StudyTiling.__init__")
        r0 = ev.run(init.node, args={"width": par["width"], "height": par["height"]})
        f0 = {e.term[1][0][2]: e.term[1][1] for e in r0.events if e.kind == "store" and e.term[1][0][0] == "attr" and e.term[1][0][1] == SELF}
        f0 = _derived(project, ev, f0, NEED_FIELDS)
        want_gx0 = sym.add(f0["_img_gx0"], ("sym", ps[1]))
        want_gy0 = sym.add(f0["_img_gy0"], ("sym", ps[2]))
        want_nw, want_nh, want_lv = ("sym", ps[3]), ("sym", ps[4]), f0["_tile_levels"]
    else:
        want_gx0, want_gy0, want_nw, want_nh, want_lv = gx0, gy0, nw, nh, lv
    spec_y, spec_c, rs = _spec_terms(ev, want_gx0, want_gy0, want_nw, want_nh, want_lv)
    # ---- generator
    g = project.fn(ST + ".StudyTiling.generate_populated_positions")
    run.note_func(g)
    rg = ev.run(g.node, env=env)
    if len(rg.yields) != 1:
        run.violated("C08.R2", g, None, "%s: generate_populated_positions has %d yield sites (one unconditional yield per tile expected)" % (label, len(rg.yields)),
                     kind="yield-sites")
        return
    pc, got, node = rg.yields[0]
    conds = [c for c in pc if c[0] != "loop"]
    if conds:
        run.violated("C08.R2", g, node, "%s: a tile's tuple is only generated under %s" % (label, [show(c[0])[:60] for c in conds]), kind="conditional-yield")
    if got[0] != "tuple" or len(got[1]) != 7:
        run.undecided("C08.R2", g, node, "%s: generated item is not a 7-tuple" % label, kind="yield-shape")
        return
    # loop variables: rename the specification's loop symbols onto the implementation's by matching the ranges
    for i, name in enumerate(SLOTS):
        d = termdiff.diff(got[1][i], spec_y[1][i])
        if d[0] == "equal":
            run.holds("C08.R2", g, node, "%s: slot `%s` equals its specification" % (label, name), slot=name, scenario=label)
        elif d[0] == "definite":
            run.violated("C08.R2", g, node, "%s: slot `%s` of the generated tuple deviates from the specification: %s" % (label, name, termdiff.describe(d)),
                         kind="slot-" + name, slot=name, scenario=label)
        else:
            run.undecided("C08.R2", g, node, "%s: slot `%s`: %s" % (label, name, termdiff.describe(d)), kind="slot-structure-" + name, slot=name, scenario=label)
    # ---- count
    c = project.fn(ST + ".StudyTiling.count_populated_positions")
    run.note_func(c)
    rcn = ev.run(c.node, env=env)
    if len(rcn.returns) != 1:
        run.undecided("C08.R1", c, None, "count has %d returns" % len(rcn.returns), kind="count-shape")
        return
    d = termdiff.diff(rcn.returns[0][1], spec_c)
    # the count must also equal the product of the generator's own loop extents
    loops = [it for k, it, n in rg.loops if it[0] == "call" and it[1] == ("sym", "range")]
    gen_count = None
    if len(loops) == 2 and all(len(it[2]) == 2 for it in loops):
        gen_count = sym.mul(sym.sub(loops[0][2][1], loops[0][2][0]), sym.sub(loops[1][2][1], loops[1][2][0]))
    if d[0] == "equal" and (gen_count is None or gen_count == rcn.returns[0][1]):
        run.holds("C08.R1", c, rcn.returns[0][2], "%s: reported count == number of generated tiles == specification" % label, scenario=label)
    elif gen_count is not None and gen_count != rcn.returns[0][1]:
        run.violated("C08.R1", c, rcn.returns[0][2], "%s: count_populated_positions returns %s but the generator yields %s tuples" % (
            label, show(rcn.returns[0][1])[:150], show(gen_count)[:150]), kind="count-vs-generator", scenario=label)
    elif d[0] == "definite":
        run.violated("C08.R1", c, rcn.returns[0][2], "%s: tile count deviates from the specification: %s" % (label, termdiff.describe(d)), kind="count", scenario=label)
    else:
        run.undecided("C08.R1", c, rcn.returns[0][2], "%s: tile count: %s" % (label, termdiff.describe(d)), kind="count-structure", scenario=label)


def _r4_geometry(run, ev, fa, state_b):
    project = run.project
    init = project.fn(ST + ".StudyTiling.__init__")
    W, H = fa["_width"], fa["_height"]
    nh = lambda t: ("call", ("sym", "next_highest_power_of_2"), (t,), ())
    e2 = lambda src, **k: ev.expr(src, k)
    p2n_want = ("call", ("sym", "max"), tuple(sorted((nh(W), nh(H)), key=repr)), ())
    checks = [
        ("_p2n", fa["_p2n"], p2n_want, "smallest power of two (>= 256) containing both axes: max(nhp2(width), nhp2(height))"),
        ("_tile_size", fa["_tile_size"], e2("p // 256", p=fa["_p2n"]), "p2n // 256"),
        ("_img_gx0", fa["_img_gx0"], e2("(p - w) // 2", p=fa["_p2n"], w=W), "(p2n - width) // 2 (centred, rounded down)"),
        ("_img_gy0", fa["_img_gy0"], e2("(p - h) // 2", p=fa["_p2n"], h=H), "(p2n - height) // 2 (centred, rounded down)"),
    ]
    # next_highest_power_of_2 is not inlined (it loops); accept either the call atom or its havoc'd result
    for name, got, want, desc in checks:
        if name == "_p2n" and got != want:
            # the inliner may have replaced the call by the loop's result symbol; compare on the un-inlined evaluator
            ev0 = sym.make_evaluator(project, ST, [])
            r0 = ev0.run(init.node)
            f0 = {e.term[1][0][2]: e.term[1][1] for e in r0.events if e.kind == "store" and e.term[1][0][0] == "attr" and e.term[1][0][1] == SELF}
            f0 = _derived(project, ev0, f0, NEED_FIELDS)
            W0, H0 = f0["_width"], f0["_height"]
            want0 = ("call", ("sym", "max"), tuple(sorted((nh(W0), nh(H0)), key=repr)), ())
            if "_p2n" not in f0:
                run.undecided("C08.R4", init, None, "_p2n is neither stored by the constructor nor a property computed from the stored fields", kind="geometry-structure-_p2n", field=name)
                continue
            got, want = f0["_p2n"], want0
            # next_highest_power_of_2 is monotone: nhp2(max(w, h)) is the same number as max(nhp2(w), nhp2(h))
            if got == nh(("call", ("sym", "max"), tuple(sorted((W0, H0), key=repr)), ())):
                got = want
        d = termdiff.diff(got, want)
        if d[0] == "equal":
            run.holds("C08.R4", init, None, "%s = %s" % (name, desc), field=name)
        elif d[0] == "definite":
            run.violated("C08.R4", init, None, "%s is %s; the specification is %s" % (name, show(got)[:120], desc), kind="geometry-" + name, field=name)
        else:
            # the normaliser cannot relate the two spellings: look for a concrete counterexample on a grid of image sizes
            # (a counterexample is a definite violation; agreement on the grid proves nothing and stays undecided)
            cex = _grid_counterexample(got, want)
            if cex is not None:
                wv, hv, gv, ev_ = cex
                run.violated("C08.R4", init, None, "%s is %s; the specification is %s: for a %d x %d image the code gives %s, the specification %s" % (
                    name, show(got)[:100], desc, wv, hv, gv, ev_), kind="geometry-" + name, field=name)
            else:
                run.undecided("C08.R4", init, None, "%s is %s; cannot relate it to %s (%s)" % (name, show(got)[:120], desc, termdiff.describe(d)[:160]),
                              kind="geometry-structure-" + name, field=name)
    lv = fa["_tile_levels"]
    ok_lv = lv == ("op", "ilog2", (fa["_tile_size"],))          # floor(log2(tile_size)): int(np.log2(x)) or x.bit_length() - 1
    if ok_lv:
        run.holds("C08.R4", init, None, "_tile_levels = int(log2(tile_size))")
    else:
        run.violated("C08.R4", init, None, "_tile_levels is %s, expected int(np.log2(self._tile_size))" % show(lv)[:100], kind="geometry-levels")
    # next_highest_power_of_2: start 256, double while smaller than n
    f = project.fn("toasty.pyramid.next_highest_power_of_2")
    run.note_func(f)
    ok = False
    pev = sym.make_evaluator(project, "toasty.pyramid", [])
    pr = pev.run(f.node)
    n_t = ("sym", f.params()[0])
    wl = [(k, it) for k, it, nd in pr.loops if it[0] == "op" and it[1] == "while"]
    if len(wl) == 1 and len(pr.returns) == 1:
        k, it = wl[0]
        cond = it[2][0]
        carried = [a_ for a_ in atoms_of(cond) if a_[0] == "sym" and a_[1].endswith("@L%d" % k)]
        if len(carried) == 1 and cond == sym.cmp("Lt", carried[0], n_t):
            name = carried[0][1].split("@")[0]
            inits = [e for e in pr.events if e.kind == "assign" and e.term[1][0] == ("sym", name) and ("loop", k) not in e.pc]
            steps = [e for e in pr.events if e.kind == "assign" and e.term[1][0] == ("sym", name) and ("loop", k) in e.pc]
            ok = len(inits) == 1 and num_value(inits[0].term[1][1]) == 256 and len(steps) == 1 \
                and steps[0].term[1][1] == sym.mul(num(2), carried[0]) and not [c for c in steps[0].pc if c[0] != "loop"] \
                and pr.returns[0][1] == ("sym", "%s@A%d" % (name, k)) and not [c for c in pr.returns[0][0] if c[0] != "loop"]
    if ok:
        run.holds("C08.R4", f, None, "next_highest_power_of_2: p = 256; while p < n: p *= 2")
    else:
        run.violated("C08.R4", f, None, "next_highest_power_of_2 is no longer `p = 256; while p < n: p *= 2; return p` (smallest power of two >= max(n, 256))",
                     kind="nhp2")
    # sub-image tiling: parent's full size, sub size, offsets shifted axis by axis
    if state_b is None:
        return
    cfs = project.fn(ST + ".StudyTiling.compute_for_subimage")
    ps = cfs.params()
    fb = state_b["fields"]
    par = state_b["ctor_args"]
    problems = []
    if par["width"] != _fld("_width") or par["height"] != _fld("_height"):
        problems.append(("subimage-parent-size", "the sub-tiling is built from (%s, %s), not from the parent's full size (self._width, self._height): "
                         "it would not share the parent's padded square / levels" % (show(par["width"])[:40], show(par["height"])[:40])))
    if fb["_width"] != ("sym", ps[3]) or fb["_height"] != ("sym", ps[4]):
        problems.append(("subimage-size", "sub-tiling size is (%s, %s), expected (subim_width, subim_height)" % (show(fb["_width"])[:40], show(fb["_height"])[:40])))
    r0 = ev.run(project.fn(ST + ".StudyTiling.__init__").node, args={"width": par["width"], "height": par["height"]})
    f0 = {e.term[1][0][2]: e.term[1][1] for e in r0.events if e.kind == "store" and e.term[1][0][0] == "attr" and e.term[1][0][1] == SELF}
    f0 = _derived(project, ev, f0, NEED_FIELDS)
    for fld, p_ in (("_img_gx0", ps[1]), ("_img_gy0", ps[2])):
        want = sym.add(f0[fld], ("sym", p_))
        if fb[fld] != want:
            problems.append(("subimage-offset", "sub-tiling %s is %s; expected the parent's offset plus %s" % (fld, show(fb[fld])[:100], p_)))
    for fld in ("_p2n", "_tile_size", "_tile_levels"):
        if fb[fld] != f0[fld]:
            problems.append(("subimage-geometry", "sub-tiling %s differs from the parent's" % fld))
    from . import common as _common
    opaque = [u for fld_ in ("_width", "_height", "_img_gx0", "_img_gy0", "_p2n", "_tile_levels") if fld_ in fb for u in _common.unfollowed_project_calls(project, fb[fld_])
              if show(u[1]).split(".")[-1] not in ("next_highest_power_of_2",)]
    opaque += [x for fld_ in ("_width", "_height", "_img_gx0", "_img_gy0") if fld_ in fb for x in _subterms_c08(fb[fld_])
               if x[0] == "call" and x[1][0] == "attr" and x[1][1][0] in ("nt", "call") and x[1][2] not in ("get",)]
    if problems and opaque:
        run.undecided("C08.R4", cfs, None, "the sub-tiling's fields go through %s, which is not followed (%s)" % (show(opaque[0])[:70], problems[0][1][:120]), kind="subimage-opaque")
        return
    if problems:
        for kind, msg in problems:
            run.violated("C08.R4", cfs, None, msg, kind=kind)
    else:
        run.holds("C08.R4", cfs, None, "sub-image tiling: parent geometry, size = sub size, offsets += (ix, iy)")


def _grid_counterexample(got, want):
    """(width, height, got value, wanted value) for an image size on which two geometry terms differ, or None."""
    from sa.teval import teval, UNKNOWN

    def hook(t, rec):
        if t[0] == "call" and t[1] == ("sym", "next_highest_power_of_2") and len(t[2]) == 1:
            v = rec(t[2][0])
            if v is UNKNOWN:
                return UNKNOWN
            p_ = 256
            while p_ < v:
                p_ *= 2
            return p_
        if t[0] == "call" and t[1] == ("sym", "int") and len(t[2]) == 1:
            v = rec(t[2][0])
            return UNKNOWN if v is UNKNOWN else int(v)
        if t[0] == "call" and t[1] == ("sym", "max") and t[2]:
            vs = [rec(a) for a in t[2]]
            return UNKNOWN if any(v is UNKNOWN for v in vs) else max(vs)
        if t[0] == "call" and t[1] == ("sym", "min") and t[2]:
            vs = [rec(a) for a in t[2]]
            return UNKNOWN if any(v is UNKNOWN for v in vs) else min(vs)
        return NotImplemented
    sizes = list(range(1, 12)) + [255, 256, 257, 258, 511, 512, 513, 600, 1023, 1024, 1025]
    for wv in sizes:
        for hv in sizes:
            env = {("sym", "width"): wv, ("sym", "height"): hv}
            g, w_ = teval(got, env, [hook]), teval(want, env, [hook])
            if g is UNKNOWN or w_ is UNKNOWN:
                return None
            if g != w_:
                return wv, hv, g, w_
    return None


def _slices_spec(ev, image_x, image_y, tile_x, tile_y, width, height):
    e2 = lambda src, **k: ev.expr(src, k)
    k = dict(ix=image_x, iy=image_y, tx=tile_x, ty=tile_y, w=width, h=height)
    return {
        "iy": e2("slice(iy, iy + h)", **k), "ix": e2("slice(ix, ix + w)", **k), "bx": e2("slice(tx, tx + w)", **k),
        "by_down": e2("slice(ty, ty + h)", **k),
        "by_up": ("call", ("sym", "slice"), (e2("255 - ty", **k), ("ite", sym.cmp("Eq", e2("255 - ty - h", **k), num(-1)), sym.NONE, e2("255 - ty - h", **k)), num(-1)), ()),
        # the stop value is >= -1 (ty + h <= 256 by R2), so `== -1`, `< 0` and `<= -1` guard the same case
        "by_up_alt": [("call", ("sym", "slice"), (e2("255 - ty", **k), ("ite", g, sym.NONE, e2("255 - ty - h", **k)), num(-1)), ())
                      for g in (sym.cmp("Lt", e2("255 - ty - h", **k), num(0)), sym.cmp("LtE", e2("255 - ty - h", **k), num(-1)))],
    }


def _tile_fill_facts(ev, fn_node, fill_attr, env=None):
    r = ev.run(fn_node, env=env)
    fills = [e for e in r.events if e.kind == "call" and e.term[1][0] == "attr" and e.term[1][2] == fill_attr]
    return r, fills


def _r3_tile_image(run, ev):
    project = run.project
    f = project.fn(ST + ".StudyTiling.tile_image")
    run.note_func(f)
    r, fills = _tile_fill_facts(ev, f.node, "fill_into_maskable_buffer")
    if len(fills) != 1:
        run.undecided("C08.R3", f, None, "tile_image does not call fill_into_maskable_buffer exactly once", kind="fill-shape")
        return
    e = fills[0]
    a = e.term[2]
    gen = ("call", ("attr", SELF, "generate_populated_positions"), (), ())
    el = ("elem", gen)
    pos, width, height, image_x, image_y, tile_x, tile_y = (("item", el, i) for i in range(7))
    spec = _slices_spec(ev, image_x, image_y, tile_x, tile_y, width, height)
    inv = sym.cmp("Eq", ("call", ("attr", ("sym", f.params()[2]), "get_default_vertical_parity_sign"), (), ()), num(1))
    if len(a) != 5:
        run.undecided("C08.R3", f, e.node, "fill call has %d args" % len(a), kind="fill-args")
        return
    want = {"iy": (1, spec["iy"]), "ix": (2, spec["ix"]), "bx": (4, spec["bx"])}
    for nm, (i, w) in want.items():
        d = termdiff.diff(a[i], w)
        if d[0] == "equal":
            run.holds("C08.R3", f, e.node, "fill argument %d (%s_idx) = %s" % (i, nm, show(w)[:60]), arg=nm)
        elif d[0] == "definite":
            run.violated("C08.R3", f, e.node, "fill argument %d (%s_idx): %s" % (i, nm, termdiff.describe(d)), kind="slice-" + nm, arg=nm)
        else:
            run.undecided("C08.R3", f, e.node, "fill argument %d (%s_idx): %s" % (i, nm, termdiff.describe(d)), kind="slice-structure-" + nm, arg=nm)
    by = a[3]
    want_by = sym.mk_ite(inv, spec["by_up"], spec["by_down"])
    d = termdiff.diff(by, want_by)
    for alt in spec.get("by_up_alt", []):
        if d[0] != "equal":
            d2 = termdiff.diff(by, sym.mk_ite(inv, alt, spec["by_down"]))
            if d2[0] == "equal":
                d = d2
    if d[0] == "equal":
        run.holds("C08.R3", f, e.node, "by_idx = reversed slice(255-ty, 255-ty-h (None if -1), -1) for bottom-up formats, slice(ty, ty+h) otherwise", arg="by")
    elif d[0] == "definite":
        run.violated("C08.R3", f, e.node, "buffer row indexer: %s" % termdiff.describe(d), kind="slice-by", arg="by")
    else:
        run.undecided("C08.R3", f, e.node, "buffer row indexer: %s" % termdiff.describe(d), kind="slice-structure-by", arg="by")
    # written at the tuple's own position, the same buffer that was filled
    wr = [x for x in r.events if x.kind == "call" and x.term[1][0] == "attr" and x.term[1][2] == "write_image"]
    if len(wr) == 1 and wr[0].term[2] and wr[0].term[2][0] == pos and len(wr[0].term[2]) > 1 and wr[0].term[2][1] == a[0]:
        run.holds("C08.R3", f, wr[0].node, "each filled buffer is written at its tuple's own position")
    elif len(wr) == 1 and wr[0].term[2] and common.unfollowed_project_calls(run.project, wr[0].term[2][0]):
        run.undecided("C08.R3", f, wr[0].node, "tile_image writes at %s, a position produced by a helper that is not followed" % show(wr[0].term[2][0])[:60], kind="write-position-helper")
    else:
        run.violated("C08.R3", f, wr[0].node if wr else None, "tile_image does not write the filled buffer at the generated position", kind="write-position")
    # fill parameter order in image.py
    g = project.fn("toasty.image.Image.fill_into_maskable_buffer")
    run.note_func(g)
    ps = g.params()
    evi = sym.make_evaluator(project, "toasty.image", [])
    ri = evi.run(g.node)
    stores = [x for x in ri.events if x.kind == "store" and x.term[1][0][0] == "sub"]
    want_lv = ("tuple", (("sym", ps[4]), ("sym", ps[5])))
    want_rv = ("sub", ("call", ("attr", ("sym", "self"), "asarray"), (), ()), ("tuple", (("sym", ps[2]), ("sym", ps[3]))))
    okf = bool(stores) and all((x.term[1][0][2] == want_lv or (x.term[1][0][2][0] == "tuple" and x.term[1][0][2][1][:2] == want_lv[1])) for x in stores) \
        and any(x.term[1][1] == want_rv for x in stores)
    if okf:
        run.holds("C08.R3", g, None, "fill_into_maskable_buffer writes buffer[by, bx] = image[iy, ix]")
    else:
        run.violated("C08.R3", g, None, "fill_into_maskable_buffer does not assign buffer[by_idx, bx_idx] = image[iy_idx, ix_idx]", kind="fill-indexers")


def _r5_clones(run):
    """The bottom-up placement code of multi_wcs (serial and worker) equals study.tile_image's."""
    project = run.project
    ev = sym.make_evaluator(project, "toasty.multi_wcs", [])
    for q in ("toasty.multi_wcs.MultiWcsProcessor._tile_serial", "toasty.multi_wcs._mp_tile_worker"):
        f = project.fn(q)
        run.note_func(f)
        r = ev.run(f.node)
        ups = [e for e in r.events if e.kind == "call" and e.term[1][0] == "attr" and e.term[1][2] == "update_into_maskable_buffer"]
        if len(ups) != 1 or len(ups[0].term[2]) != 5:
            run.undecided("C08.R5", f, None, "expected one update_into_maskable_buffer(basis, iy, ix, by, bx) call", kind="clone-shape")
            continue
        a = ups[0].term[2]
        # the generator element feeding this call
        gens = [it for k, it, n in r.loops if it[0] == "call" and it[1][0] == "attr" and it[1][2] == "generate_populated_positions"]
        if not gens:
            run.undecided("C08.R5", f, None, "no loop over generate_populated_positions", kind="clone-loop")
            continue
        el = ("elem", gens[-1])
        pos, width, height, image_x, image_y, tile_x, tile_y = (("item", el, i) for i in range(7))
        spec = _slices_spec(ev, image_x, image_y, tile_x, tile_y, width, height)
        pio = "pio"
        inv = sym.cmp("Eq", ("call", ("attr", ("sym", pio), "get_default_vertical_parity_sign"), (), ()), num(1))
        want = [spec["iy"], spec["ix"], ("ite", inv, spec["by_up"], spec["by_down"]), spec["bx"]]
        names = ["iy", "ix", "by", "bx"]
        bad = False
        for i in range(4):
            d = termdiff.diff(a[i + 1], want[i])
            if d[0] == "definite":
                run.violated("C08.R5", f, ups[0].node, "%s_idx differs from the study tiling's placement: %s" % (names[i], termdiff.describe(d)), kind="clone-" + names[i])
                bad = True
            elif d[0] == "structural":
                run.undecided("C08.R5", f, ups[0].node, "%s_idx: %s" % (names[i], termdiff.describe(d)), kind="clone-structure-" + names[i])
                bad = True
        if not bad:
            run.holds("C08.R5", f, ups[0].node, "placement slices equal study.tile_image's (both parities)")


def _subterms_c08(t):
    if isinstance(t, tuple):
        if t and isinstance(t[0], str):
            yield t
        for x in t:
            if isinstance(x, tuple):
                for y in _subterms_c08(x):
                    yield y
