"""C19 - An error while processing any tile is reported, never swallowed by parallelism.

R1 worker exit status inspected after the joins (and a raise depends on it)
R2 every unbounded wait of the parent observes worker liveness
   (polling loops, blocking puts on bounded queues, joins on error paths)
R3 no handler in a worker / serial sibling / stage swallows a processing error
R4 context managers wrapped around the processing loops do not swallow exceptions
R6 every exit-status test raises for every failing exit code of every worker (meaning of the test, finite domain)
"""
import ast

from sa.cfg import CFG, enclosing_stmts
from sa.model import callee_attr, dotted, own_calls, own_nodes
from . import common
from .C03 import _join_nodes, _work_queues, _event_vars, _dispatcher_and_serial

EXPLANATION = (
    "For every discovered parallel stage: path queries on the stage CFG decide that the workers' exit status "
    "(exitcode / is_alive, directly or through a project helper whose effect summary reads it and raises) is "
    "inspected after the joins on every normal path; that every potentially unbounded wait of the parent (a polling "
    "loop whose Empty handler continues, a blocking put on a bounded queue, a join reachable on an error path before "
    "the done flag is set) has an escape that observes worker liveness; that no except handler in a worker loop, a "
    "serial sibling or a stage lets a processing error fall through; that generator-based context managers wrapped "
    "around processing loops cannot discard an in-flight exception; and that only parallel=None is replaced by the "
    "CPU count. A worker that raises exits non-zero (CPython contract), so with these premises the parent raises in "
    "every parallel mode, and serial mode propagates naturally."
)

MANIFEST = {
    "technique": "static analysis: stage discovery, helper effect summaries, nullness-aware CFG path queries for must-inspect-exit-status and bounded waits, liveness of unbounded queues, handler-swallow analysis incl. context managers, finite-domain evaluation of the exit-status test (every failing exit code of every worker raises); exception landing by exception class (handlers / finally blocks on the way out); blocking queue flush on the exception path of a status check; receive delegated to helpers (effect summaries incl. blocking vs timed get); mutation of a worker list while it is iterated; pool objects / context managers taken apart before the stage analysis; no unbounded wait (join without timeout) between a failed exit status and the raise; a handler for queue timeouts must not cover the processing call; a join / status loop that removes entries from the list it walks; any non-re-raising handler around a context manager's yield; feeder join before status check: CFG path query from the last put of image-carrying items to join_thread() avoiding every inspection of the workers' exit status",
    "text": "Decides on all paths of every parallel stage, worker and serial sibling the structural premises under which a processing error must surface in the caller (exit status inspected after join; liveness observed in every unbounded wait; no swallowing handler or context manager).",
    "note": "Trusted: a Python worker process that raises exits with a non-zero exitcode; Process.join/exitcode/is_alive contracts. Residual not covered: queue.join_thread() can block if all workers die with more than a pipe buffer of items pending.",
}


def run(run):
    project = run.project
    run.explanation = EXPLANATION
    run.assumptions += [
        "an uncaught exception in a multiprocessing worker terminates it with a non-zero exitcode",
        "Process.join returns when the worker exited; exitcode is then not None",
    ]
    run.undecided_clauses += ["join_thread() blocking when every consumer died with a full pipe (not decided)"]
    stages = common.discover_stages(project)
    run.floor("C19.R1", 5)
    run.floor("C19.R2", 5)
    run.floor("C19.R3", 5)
    run.floor("C19.R4", 1)
    run.floor("C19.R6", 1)
    seen_funcs = set()
    for st in stages:
        run.note_func(st.func)
        if st.worker is None:
            run.undecided("C19.R1", st.func, st.proc_call, "cannot resolve worker", kind="unresolved-worker")
            continue
        run.note_func(st.worker)
        _r1(run, st)
        _r2(run, st)
        _r2_feeder_join(run, st)
        _r3_handlers(run, st.worker, "worker of " + st.name, _worker_get_calls(st))
        _r3_handlers(run, st.func, "stage", [])
        caller, ifnode, arm = _dispatcher_and_serial(project, st)
        if caller is not None:
            for f in _serial_funcs(project, caller, arm):
                if f.qual not in seen_funcs:
                    seen_funcs.add(f.qual)
                    run.note_func(f)
                    _r3_handlers(run, f, "serial path", [])
    _r4_context_managers(run, stages)
    _r6_status_meaning(run)
    # tasks handed to a concurrent.futures executor: a processing error comes back only if the result is consumed
    common.check_discarded_futures(run, "C19.R3", [g_ for g_ in project.py_funcs() if "/tests/" not in g_.module.relpath],
                                   "a tile that failed to process is not reported")
    if not common.discarded_futures_selfcheck():
        run.undecided("C19.R3", None, None, "discarded-futures rule self-check failed", kind="selfcheck", construct="<futures selfcheck>")


# ---------------------------------------------------------------------------

def _status_sites(project, st):
    """Nodes of the stage where the workers' exit status is inspected with a
    raise depending on it: [(node, how)]."""
    cfg, f = st.cfg, st.func
    wvars = set(st.worker_lists) | set(st.proc_vars)
    out = []
    # locals computed from the exit status (`failed = [w.exitcode for w in workers if w.exitcode not in (None, 0)]`): a test of
    # such a local is a test of the status
    status_vars = set()
    for _round in range(2):
        for x in own_nodes(f.node):
            if isinstance(x, ast.Assign) and len(x.targets) == 1 and isinstance(x.targets[0], ast.Name):
                if any((isinstance(y, ast.Attribute) and y.attr == "exitcode") or (isinstance(y, ast.Call) and callee_attr(y) == "is_alive")
                       or (isinstance(y, ast.Name) and y.id in status_vars) for y in ast.walk(x.value)):
                    status_vars.add(x.targets[0].id)
    for n in cfg.nodes:
        for e in cfg.expr_of(n):
            direct = False
            for x in ast.walk(e):
                if isinstance(x, ast.Attribute) and x.attr in ("exitcode",) and isinstance(x.value, ast.Name):
                    direct = True
                if isinstance(x, ast.Call) and callee_attr(x) == "is_alive":
                    direct = True
                if n.kind == "if" and isinstance(x, ast.Name) and x.id in status_vars:
                    direct = True
            if direct and n.kind == "if":
                # a raise must be control dependent on it
                if any(isinstance(y, ast.Raise) for y in ast.walk(n.ast)):
                    out.append((n, "direct"))
                    # `for w in workers: if w.exitcode ...: raise`: the loop as a whole is the inspection (it runs once per worker;
                    # with no workers there is nothing to inspect)
                    for s_, blk_ in enclosing_stmts(f.node, n.ast):
                        if isinstance(s_, ast.For) and isinstance(s_.iter, ast.Name) and s_.iter.id in wvars and isinstance(s_.target, ast.Name) \
                                and any(isinstance(y, ast.Attribute) and y.attr == "exitcode" and isinstance(y.value, ast.Name) and y.value.id == s_.target.id
                                        for y in ast.walk(n.ast.test)):
                            ln = cfg.node_of_stmt(s_)
                            if ln is not None:
                                out.append((ln, "loop over " + s_.iter.id))
        for c in cfg.calls_at(n):
            tgt, effs = common.helper_effects(project, f, c)
            if tgt is None:
                continue
            summ = common.summarize(project, tgt)
            for v, es in effs.items():
                if v in wvars and ({"each:attr:exitcode", "attr:exitcode", "each:is_alive", "is_alive"} & es) \
                        and "raises" in summ.get("<fn>", ()):
                    out.append((n, "helper " + tgt.short))
                    break
    return out


def _r2_feeder_join(run, st):
    """`queue.join_thread()` waits without bound for the queue's feeder thread, which makes progress only while some worker reads
    the pipe.  Items of bounded, small size (tile positions) always fit into the pipe buffer, so the feeder finishes whatever the
    workers do; items that carry *images* do not (about 1 MB pickled against a 64 KiB pipe).  A stage that sends images and joins
    the feeder before it has looked at the workers' exit status neither fails nor returns when every worker died with a few items
    pending: no put timed out (so no status check ran) and the feeder blocks on a pipe nobody reads (F16)."""
    project, cfg, f = run.project, st.cfg, st.func
    joins = [n for n in cfg.nodes for c in cfg.calls_at(n) if callee_attr(c) == "join_thread" and isinstance(c.func, ast.Attribute)
             and isinstance(c.func.value, ast.Name) and c.func.value.id in st.queues]
    if not joins:
        return
    # do the items sent on that queue carry images?  (the loop variable of a loop over <collection>.images(), also through zip / enumerate)
    image_vars = set()
    for lp in [x for x in own_nodes(f.node) if isinstance(x, ast.For)]:
        if any(isinstance(y, ast.Call) and callee_attr(y) == "images" for y in ast.walk(lp.iter)):
            image_vars |= {y.id for y in ast.walk(lp.target) if isinstance(y, ast.Name)}
    big = []
    for n in cfg.nodes:
        for c in cfg.calls_at(n):
            if callee_attr(c) in ("put", "put_to_workers", "put_nowait") or (common.resolve_callee(project, f, c) is not None and
                                                                             "put" in str(common.summarize(project, common.resolve_callee(project, f, c)))):
                if any(isinstance(y, ast.Name) and y.id in image_vars for a in list(c.args) + [k.value for k in c.keywords] for y in ast.walk(a)):
                    big.append(n)
    if not big:
        run.holds("C19.R2", f, joins[0].ast, "%s: join_thread() on a queue of small items (tile positions): the feeder always finishes" % st.name, stage=st.name)
        return
    status = {n.id for n, _how in _status_sites(project, st)}
    for j in joins:
        # is the feeder join reachable from the last large put without passing an inspection of the workers' status?
        reach = set()
        for b in big:
            reach |= cfg.reachable(b.id, avoid=status, skip_labels=("exc",))
        if j.id in reach:
            run.violated("C19.R2", f, j.ast, "%s sends images to its workers and then waits in join_thread() (line %d) before the workers' exit status is inspected: if every "
                         "worker has died while a few of these large items are still pending (no put timed out, so no status check ran), the feeder thread blocks on a pipe nobody "
                         "reads and the stage neither raises nor returns" % (st.name, j.ast.lineno), kind="feeder-join-before-status-check", stage=st.name)
        else:
            run.holds("C19.R2", f, j.ast, "%s: the workers' status is inspected before the feeder is joined" % st.name, stage=st.name)


def _helper_checks_after_join(project, tgt):
    """Inside a helper that joins every worker: is the exit status read on every
    path from the join to the normal return?"""
    cfg = CFG(tgt.node)
    joins = set()
    checks = set()
    for n in cfg.nodes:
        for e in cfg.expr_of(n):
            for x in ast.walk(e):
                if isinstance(x, ast.Call) and callee_attr(x) == "join":
                    # the loop head stands for the joins
                    loops = [s for s, b in enclosing_stmts(tgt.node, n.ast) if isinstance(s, ast.For)]
                    joins.add(cfg.node_of_stmt(loops[-1]).id if loops else n.id)
                if isinstance(x, ast.Attribute) and x.attr == "exitcode":
                    checks.add(n.id)
                if isinstance(x, ast.Call):
                    t2 = common.resolve_callee(project, tgt, x)
                    if t2 is not None:
                        s2 = common.summarize(project, t2)
                        if any({"each:attr:exitcode", "attr:exitcode"} & es for p, es in s2.items() if p != "<fn>") \
                                and "raises" in s2.get("<fn>", ()):
                            checks.add(n.id)
    if not joins:
        return True
    for j in joins:
        if cfg.exit.id in cfg.reachable(j, avoid=checks, skip_labels=("exc",)):
            return False
    return True


def _r1(run, st):
    project = run.project
    cfg, f = st.cfg, st.func
    joins = _join_nodes(st, project)
    starts = [n for n, c in common.method_calls_on(cfg, st.proc_vars, "start")]
    if not starts or not joins:
        run.undecided("C19.R1", f, st.proc_call, "no start/join of workers found", kind="no-join")
        return
    sites = _status_sites(project, st)
    site_ids = {n.id for n, how in sites}
    facts = dict(stage=st.name, status_sites=[(n.line, how) for n, how in sites], join_lines=sorted(cfg.nodes[j].line for j in joins))
    # every path from a join to the normal return inspects the exit status at/after the join
    bad = None
    for j in joins:
        jn = cfg.nodes[j]
        if j in site_ids:
            # combined helper: the check must follow the join inside it
            ok = True
            for c in cfg.calls_at(jn):
                tgt = common.resolve_callee(project, f, c)
                if tgt is not None and "each:join" in set().union(*[es for p, es in common.summarize(project, tgt).items() if p != "<fn>"] or [set()]):
                    run.note_func(tgt)
                    ok = ok and _helper_checks_after_join(project, tgt)
            if not ok:
                bad = "helper joining the workers does not read their exit status after the join on every path"
            continue
        if cfg.exit.id in cfg.reachable(j, avoid=site_ids, skip_labels=("exc",)):
            bad = ("after joining its workers (line %d) the stage returns normally without inspecting their exit status: "
                   "a worker that died on an exception goes unnoticed" % jn.line)
    if bad:
        run.violated("C19.R1", f, cfg.nodes[min(joins)].ast, bad, kind="exit-status-ignored", **facts)
    else:
        run.holds("C19.R1", f, cfg.nodes[min(joins)].ast, "exit status inspected after the joins, raise depends on it", **facts)


def _reaches_unchecked(cfg, f, try_stmt, start, target, checks):
    """Can control go from the handler (node *start*) back to the loop head (*target*) without passing a liveness check?
    Path-sensitive in one respect: when the try body is `v = <receive>` and v was set to None just before the try, then v
    is None on the handler's paths, and branches on `v is None` / `v is not None` / `v` are followed accordingly."""
    none_vars = set()
    if len(try_stmt.body) == 1 and isinstance(try_stmt.body[0], ast.Assign) and all(isinstance(t, ast.Name) for t in try_stmt.body[0].targets):
        tgt = {t.id for t in try_stmt.body[0].targets}
        # the statement(s) right before the try in the same block
        for s_, blk in enclosing_stmts(f.node, try_stmt) + [(f.node, "body")]:
            for fld in ("body", "orelse", "finalbody"):
                lst = getattr(s_, fld, None)
                if isinstance(lst, list) and try_stmt in lst:
                    i = lst.index(try_stmt)
                    j = i - 1
                    while j >= 0 and isinstance(lst[j], ast.Assign) and all(isinstance(t, ast.Name) for t in lst[j].targets):
                        if isinstance(lst[j].value, ast.Constant) and lst[j].value.value is None:
                            none_vars |= {t.id for t in lst[j].targets} & tgt
                        j -= 1

    def branch_ok(n, lab):
        """May the edge *lab* out of if-node n be taken when every variable of none_vars is None?"""
        if n.kind != "if" or not none_vars or lab not in ("T", "F"):
            return True
        t = n.ast.test
        neg = False
        while isinstance(t, ast.UnaryOp) and isinstance(t.op, ast.Not):
            neg, t = not neg, t.operand
        truth = None      # truth value of the test when the variable is None
        if isinstance(t, ast.Compare) and len(t.ops) == 1 and isinstance(t.left, ast.Name) and t.left.id in none_vars \
                and isinstance(t.comparators[0], ast.Constant) and t.comparators[0].value is None:
            if isinstance(t.ops[0], (ast.Is, ast.Eq)):
                truth = True
            elif isinstance(t.ops[0], (ast.IsNot, ast.NotEq)):
                truth = False
        elif isinstance(t, ast.Name) and t.id in none_vars:
            truth = False
        if truth is None:
            return True
        if neg:
            truth = not truth
        return (lab == "T") == truth

    def reassigned(n):
        a = n.ast
        return n.kind == "stmt" and isinstance(a, (ast.Assign, ast.AugAssign, ast.AnnAssign)) and any(
            isinstance(x, ast.Name) and isinstance(x.ctx, ast.Store) and x.id in none_vars for x in ast.walk(a))
    seen = set()
    todo = [(start, True)]
    while todo:
        i, still_none = todo.pop()
        if (i, still_none) in seen:
            continue
        seen.add((i, still_none))
        n = cfg.nodes[i]
        if i in checks and i != start:
            continue
        if reassigned(n):
            still_none = False
        for j, lab in cfg.succ[i]:
            if still_none and not branch_ok(n, lab):
                continue
            if j == target:
                return True
            todo.append((j, still_none))
    return False


def _r2(run, st):
    project = run.project
    cfg, f = st.cfg, st.func
    sites = _status_sites(project, st)
    # a status check whose exception is caught by a handler of the very try it sits in (one that carries on) reports nothing
    site_ids = set()
    for n_, how in sites:
        swallowed = False
        raised = set()
        for c_ in cfg.calls_at(n_):
            tgt_ = common.resolve_callee(project, f, c_)
            if tgt_ is not None:
                raised |= common.raised_classes(project, tgt_)
        for x_ in ast.walk(n_.ast) if n_.ast is not None else []:
            if isinstance(x_, ast.Raise) and x_.exc is not None:
                d_ = dotted(x_.exc.func if isinstance(x_.exc, ast.Call) else x_.exc)
                if d_:
                    raised.add(d_.split(".")[-1])
        for s_, blk in enclosing_stmts(f.node, n_.ast):
            if isinstance(s_, ast.Try) and blk == "body":
                for h_ in s_.handlers:
                    if any(common.handler_catches_class(h_, r_) for r_ in (raised or {"Exception"})):
                        hn_ = [x for x in cfg.nodes if x.kind == "except" and x.ast is h_]
                        # does the handler carry on (reach the function exit or a loop head) rather than re-raise?
                        if hn_ and (cfg.exit.id in cfg.reachable(hn_[0].id, skip_labels=("exc",)) or any(cfg.nodes[i_].kind == "loop" for i_ in cfg.reachable(hn_[0].id, skip_labels=("exc",)))):
                            swallowed = True
        if not swallowed:
            site_ids.add(n_.id)
    facts = dict(stage=st.name)
    n_waits = 0
    # (i) polling loops: while True around a get whose Empty handler continues
    for qv in st.queues:
        for n, c in common.method_calls_on(cfg, {qv}, "get"):
            loops = [s for s, b in enclosing_stmts(f.node, n.ast) if isinstance(s, ast.While)]
            tries = [s for s, b in enclosing_stmts(f.node, n.ast) if isinstance(s, ast.Try) and b == "body"]
            if not loops:
                continue
            n_waits += 1
            lh = cfg.node_of_stmt(loops[-1])
            kind = common.get_call_info(c)
            if kind == "blocking":
                run.violated("C19.R2", f, c, "blocking get() without timeout on %s: the parent waits forever if the worker "
                             "that should report died" % qv, kind="blocking-get", **facts)
                continue
            bad = False
            for t in tries:
                for h in t.handlers:
                    hn = [x for x in cfg.nodes if x.kind == "except" and x.ast is h]
                    if not hn:
                        continue
                    # from the handler, can the receive be reached again without an (effective) liveness check?
                    if _reaches_unchecked(cfg, f, t, hn[0].id, n.id, site_ids):
                        run.violated("C19.R2", f, h, "polling loop: the handler at line %d goes back to waiting on %s without "
                                     "checking that the workers are still alive; if a worker died the completion it owed never "
                                     "arrives and the loop never ends" % (h.lineno, qv), kind="poll-without-liveness", **facts)
                        bad = True
            if not bad:
                run.holds("C19.R2", f, c, "polling loop on %s checks worker liveness before waiting again" % qv, **facts)
    # (i') the receive may be delegated to a helper ("get from the workers"): what matters is the helper's own get
    for qv in st.queues:
        for n, c, tgt in common.effect_sites(project, f, cfg, {qv}, "get"):
            if tgt is None:
                continue
            _t, effs = common.helper_effects(project, f, c)
            es = effs.get(qv, set())
            run.note_func(tgt)
            n_waits += 1
            if "get:blocking" in es:
                run.violated("C19.R2", f, c, "%s receives from %s through %s, whose get() has no timeout (Queue.get's first positional argument is `block`, not the "
                             "timeout): the parent waits forever if the worker that should report died" % (f.short, qv, tgt.short), kind="blocking-get", **facts)
            elif "get:timeout" in es or "get:nonblocking" in es:
                inspects = [v for v, e_ in effs.items() if "each:attr:exitcode" in e_ or "attr:exitcode" in e_ or "each:is_alive" in e_]
                if inspects:
                    run.holds("C19.R2", f, c, "receive on %s delegated to %s: timed get, worker status of %s inspected there" % (qv, tgt.short, inspects[0]), **facts)
                else:
                    run.undecided("C19.R2", f, c, "receive on %s delegated to %s: timed get, but no inspection of the workers' status is visible in the helper" % (qv, tgt.short),
                                  kind="delegated-receive", **facts)
    # (ii) puts on bounded queues handed to the workers
    work_queues = _work_queues(st, project)
    for qv in sorted(work_queues):
        ctor = st.queues[qv]
        for n, c, helper in common.effect_sites(project, f, cfg, {qv}, "put"):
            if helper is None:
                kind = common.put_call_info(c, ctor)
                if kind != "bounded-blocking":
                    if kind == "unbounded":
                        n_waits += 1
                        run.holds("C19.R2", f, c, "put on unbounded queue %s never blocks" % qv, **facts)
                    elif kind in ("timeout", "nonblocking"):
                        n_waits += 1
                        run.holds("C19.R2", f, c, "put with timeout on %s (failure handling decided by C03.R2)" % qv, **facts)
                    continue
                n_waits += 1
                run.violated("C19.R2", f, c, "blocking put() on the bounded queue %s: once all workers have died the queue is "
                             "never drained and the parent blocks forever" % qv, kind="blocking-put-bounded", **facts)
            else:
                n_waits += 1
                run.note_func(helper)
                summ = common.summarize(project, helper)
                qps = [p for p in helper.params() if "put" in summ.get(p, ())]
                kinds = set()
                for p in qps:
                    kinds |= {e.split(":", 1)[1] for e in summ[p] if e.startswith("put:")}
                bounded = common.put_call_info(ast.parse("q.put(x)").body[0].value, ctor) == "bounded-blocking"
                if not bounded and (_has_join_thread(cfg, qv) or common.effect_sites(project, f, cfg, {qv}, "join_thread")):
                    run.violated("C19.R2", f, c, "the work queue %s is unbounded: the timed put inside %s can then never fail, so the liveness check it performs on `Full` "
                                 "never runs, and after the last item the parent waits in %s.join_thread() -- forever, if the workers died with more than a "
                                 "pipe buffer of items still queued" % (qv, helper.short, qv), kind="unbounded-queue-no-liveness", **facts)
                    continue
                if bounded and ("unbounded" in kinds or "bounded-blocking" in kinds):
                    run.violated("C19.R2", f, c, "helper %s puts without timeout on the bounded queue %s" % (helper.short, qv),
                                 kind="blocking-put-bounded", **facts)
                    continue
                ok = _helper_put_checks(project, helper)
                if ok:
                    run.holds("C19.R2", f, c, "put through %s: timed put, worker liveness checked on Full" % helper.short, **facts)
                else:
                    run.violated("C19.R2", f, c, "helper %s retries a timed-out put without checking worker liveness" % helper.short,
                                 kind="put-retry-without-liveness", **facts)
    # (iii) joins on error paths: a join must not be reachable (even exceptionally) before the flag is set
    joins = _join_nodes(st, project)
    sets = {n.id for n, c, h in common.effect_sites(project, f, cfg, _event_vars(st), "set")}
    starts = [n for n, c in common.method_calls_on(cfg, st.proc_vars, "start")]
    hang = None
    for s in starts:
        r = cfg.reachable(s.id, avoid=sets)
        hit = sorted(r & joins)
        if hit:
            hang = cfg.nodes[hit[0]]
    n_waits += 1
    if hang is not None:
        run.violated("C19.R2", f, hang.ast, "worker join at line %d is reachable (on an error path) before the done flag is "
                     "set: the workers never stop and the parent waits forever instead of reporting the error" % hang.line,
                     kind="join-before-set-on-error-path", **facts)
    else:
        run.holds("C19.R2", f, st.proc_call, "no join of the workers is reachable before the done flag is set, on any path", **facts)
    # (iv) once a status check has raised, the stage must not wait for the work queue to drain: queue.join_thread() returns only
    #      when everything put so far has been written to the pipe, which needs a live reader -- with the workers dead (the reason
    #      for the exception) and more than a pipe buffer of items queued it never returns, and the error is never reported
    for n_, how in sites:
        raised_ = set()
        for c_ in cfg.calls_at(n_):
            tgt_ = common.resolve_callee(project, f, c_)
            if tgt_ is not None:
                raised_ |= common.raised_classes(project, tgt_)
        for x_ in ast.walk(n_.ast) if n_.ast is not None else []:
            if isinstance(x_, ast.Raise) and x_.exc is not None:
                d_ = dotted(x_.exc.func if isinstance(x_.exc, ast.Call) else x_.exc)
                if d_:
                    raised_.add(d_.split(".")[-1])
        exc_targets = _exception_landing(cfg, f, n_, raised_ or {"Exception"})
        seen_ = set()
        for j in exc_targets:
            seen_ |= cfg.reachable(j) | {j}
        for qv in st.queues:
            for m, c in common.method_calls_on(cfg, {qv}, "join_thread"):
                if m.id in seen_ and m.id != n_.id:
                    run.violated("C19.R2", f, c, "%s.join_thread() at line %d also runs on the exception path out of the status check at line %d (a finally / handler): the "
                                 "failure was detected because workers died, so nobody drains the queue and the flush blocks forever instead of the error "
                                 "being reported" % (qv, m.line, n_.line), kind="flush-on-error-path", **facts)
                    break
            else:
                continue
            break
        else:
            continue
        break
    if n_waits == 0:
        run.undecided("C19.R2", f, st.proc_call, "no wait found in stage", kind="no-waits")


def _exception_landing(cfg, f, node, raised):
    """CFG nodes where control continues when the statement at *node* raises an exception of one of the classes *raised*: the
    first enclosing handler that catches it, and on the way out every `finally` block of the try statements it leaves."""
    out = []
    tries = [(s_, blk) for s_, blk in enclosing_stmts(f.node, node.ast) if isinstance(s_, ast.Try) and blk == "body"]
    tries.sort(key=lambda sb: -sb[0].lineno)            # innermost first
    for s_, _blk in tries:
        caught = [h for h in s_.handlers if any(common.handler_catches_class(h, r) for r in raised)]
        if caught:
            hn = [x for x in cfg.nodes if x.kind == "except" and x.ast is caught[0]]
            if hn:
                out.append(hn[0].id)
            return out
        if s_.finalbody:
            fn_ = [x for x in cfg.nodes if x.kind == "finally" and x.ast is s_]
            if fn_:
                out.append(fn_[0].id)
            else:
                fb = cfg.node_of_stmt(s_.finalbody[0])
                if fb is not None:
                    out.append(fb.id)
    return out


def _has_join_thread(cfg, qv):
    return bool(common.method_calls_on(cfg, {qv}, "join_thread"))


def _helper_put_checks(project, helper):
    cfg = CFG(helper.node)
    summ = common.summarize(project, helper)
    qps = [p for p in helper.params() if "put" in summ.get(p, ())]
    puts = [n for n, c in common.method_calls_on(cfg, qps, "put")]
    if not puts:
        return False
    checks = set()
    for n in cfg.nodes:
        for c in cfg.calls_at(n):
            t2 = common.resolve_callee(project, helper, c)
            if t2 is not None:
                s2 = common.summarize(project, t2)
                if any({"each:attr:exitcode", "attr:exitcode", "each:is_alive"} & es for p, es in s2.items() if p != "<fn>") \
                        and "raises" in s2.get("<fn>", ()):
                    checks.add(n.id)
        for e in cfg.expr_of(n):
            if n.kind == "if" and any(isinstance(x, ast.Attribute) and x.attr == "exitcode" for x in ast.walk(e)) \
                    and any(isinstance(y, ast.Raise) for y in ast.walk(n.ast)):
                checks.add(n.id)
    for pn in puts:
        for s_, blk in enclosing_stmts(helper.node, pn.ast):
            if isinstance(s_, ast.Try) and blk == "body":
                for n in cfg.nodes:
                    if n.kind == "except" and any(n.ast is h for h in s_.handlers):
                        if pn.id in cfg.reachable(n.id, avoid=checks):
                            return False
    return True


# ---------------------------------------------------------------------------

def _worker_get_calls(st):
    qparams = list(st.queue_params())
    out = []
    for c in own_calls(st.worker.node):
        if callee_attr(c) in ("get", "get_nowait") and isinstance(c.func, ast.Attribute) \
                and isinstance(c.func.value, ast.Name) and c.func.value.id in qparams:
            out.append(c)
    return out


def _serial_funcs(project, caller, arm):
    out = [caller]
    for s in arm:
        for c in ast.walk(s):
            if isinstance(c, ast.Call):
                t = common.resolve_callee(project, caller, c)
                if t is not None and t.module.kind == "py":
                    out.append(t)
    return out


_BENIGN_TRY_CALLS = {"get", "get_nowait", "qsize", "catch_warnings", "simplefilter", "unlink", "makedirs", "time", "print"}


def _r3_handlers(run, func, role, protocol_calls):
    """No except handler in *func* lets an error of the processing fall through."""
    cfg = CFG(func.node)
    n = 0
    for t in [x for x in own_nodes(func.node) if isinstance(x, ast.Try)]:
        body_calls = [c for s in t.body for c in ast.walk(s) if isinstance(c, ast.Call)]
        only_protocol = all((callee_attr(c) in _BENIGN_TRY_CALLS) or any(c is p for p in protocol_calls) for c in body_calls)
        for h in t.handlers:
            n += 1
            hn = [x for x in cfg.nodes if x.kind == "except" and x.ast is h]
            if not hn:
                continue
            # does the handler always re-raise?
            falls = cfg.exit.id in cfg.reachable(hn[0].id, skip_labels=()) or any(
                cfg.nodes[i].kind == "loop" for i in cfg.reachable(hn[0].id))
            always_raises = not (cfg.exit.id in cfg.reachable(hn[0].id)) and not _reaches_outside(cfg, hn[0], h)
            caught = []
            if h.type is not None:
                for x in (h.type.elts if isinstance(h.type, ast.Tuple) else [h.type]):
                    caught.append((dotted(x) or "?").split(".")[-1])
            if caught and set(caught) <= {"Empty", "Full"} and not only_protocol and not always_raises and [
                    c for c in body_calls if not ((callee_attr(c) in _BENIGN_TRY_CALLS) or any(c is p for p in protocol_calls))
                    and _may_be_processing(run.project, func, c)]:
                # the processing itself runs inside the try whose handler treats queue.Empty / queue.Full as "nothing received":
                # a callback that raises one of them (it may use timed queue operations of its own) is taken for an idle poll
                what = sorted({callee_attr(c) or "?" for c in body_calls} - _BENIGN_TRY_CALLS)
                run.violated("C19.R3", func, h, "%s: the handler for %s at line %d also covers %s: a processing step that raises this exception (a timed queue "
                             "operation of its own) is mistaken for an empty queue and its error is dropped" % (role, "/".join(caught), h.lineno, ", ".join(what)[:100]),
                             kind="timeout-handler-covers-processing", function=func.short)
            elif caught and set(caught) <= {"Empty", "Full"}:
                # queue.Empty / queue.Full are raised only by timed queue operations: no processing error is caught here
                run.holds("C19.R3", func, h, "%s: handler catches only queue timeouts (%s)" % (role, ", ".join(caught)), function=func.short)
            elif only_protocol:
                run.holds("C19.R3", func, h, "%s: handler guards queue/bookkeeping calls only" % role, function=func.short)
            elif always_raises:
                run.holds("C19.R3", func, h, "%s: handler re-raises" % role, function=func.short)
            elif _only_uncaught_status_checks(run.project, func, h, [c for c in body_calls if not ((callee_attr(c) in _BENIGN_TRY_CALLS) or any(c is p for p in protocol_calls))]):
                run.holds("C19.R3", func, h, "%s: besides queue/bookkeeping calls the try body only runs worker-status checks, whose exception class the handler does not catch" % role,
                          function=func.short)
            else:
                what = sorted({callee_attr(c) or "?" for c in body_calls} - _BENIGN_TRY_CALLS)
                run.violated("C19.R3", func, h, "%s: the handler at line %d can swallow an exception raised by %s" % (
                    role, h.lineno, ", ".join(what)[:120]), kind="handler-swallows", function=func.short)
        if t.finalbody:
            for x in t.finalbody:
                for y in ast.walk(x):
                    if isinstance(y, (ast.Return, ast.Break, ast.Continue)) and not _in_nested_loop(t.finalbody, y):
                        run.violated("C19.R3", func, y, "%s: %s inside finally discards an in-flight exception" % (
                            role, type(y).__name__.lower()), kind="finally-discards", function=func.short)
                        n += 1
    if n == 0:
        run.holds("C19.R3", func, None, "%s: no exception handler at all (errors propagate)" % role, function=func.short)


def _may_be_processing(project, func, call):
    """Is *call* (inside a try that catches queue timeouts) a call of user-supplied or project processing code - a parameter of
    the function (callback), or a project function that is not a pure status / queue helper?"""
    f = call.func
    params = set(func.params())
    if isinstance(f, ast.Name) and f.id in params:
        return True
    if isinstance(f, ast.Attribute) and isinstance(f.value, ast.Name) and f.value.id in params and f.attr not in (
            "get", "put", "get_nowait", "put_nowait", "is_set", "set", "empty", "full", "qsize", "update", "join", "is_alive", "close", "join_thread"):
        return True
    return False


def _only_uncaught_status_checks(project, func, handler, calls):
    """Every remaining call of the try body is a project helper that inspects worker exit codes and raises, and none of the
    exception classes it raises is caught by *handler*."""
    if not calls:
        return False
    for c in calls:
        tgt = common.resolve_callee(project, func, c)
        if tgt is None:
            return False
        summ = common.summarize(project, tgt)
        if not (any({"each:attr:exitcode", "attr:exitcode"} & es for p_, es in summ.items() if p_ != "<fn>") and "raises" in summ.get("<fn>", ())):
            return False
        raised = common.raised_classes(project, tgt)
        if not raised or any(common.handler_catches_class(handler, r_) for r_ in raised):
            return False
    return True


def _in_nested_loop(body, target):
    for s in body:
        for y in ast.walk(s):
            if isinstance(y, (ast.For, ast.While)) and isinstance(target, (ast.Break, ast.Continue)) \
                    and any(z is target for z in ast.walk(y)):
                return True
    return False


def _reaches_outside(cfg, hnode, handler):
    """Can control leave the handler body other than by raising?"""
    inside = {id(x) for s in handler.body for x in ast.walk(s)}
    for i in cfg.reachable(hnode.id):
        n = cfg.nodes[i]
        if n.kind in ("rexit",):
            continue
        if n.kind == "exit":
            return True
        if id(n.ast) not in inside and n.kind not in ("except", "finally"):
            # reached a statement outside the handler => the handler completed without raising
            # (unless it is only reachable through an exceptional edge)
            return True
    return False


# ---------------------------------------------------------------------------

def _r4_context_managers(run, stages):
    """Generator context managers used in the package: a return/break/continue
    inside ``finally`` (or a non re-raising except around the yield) discards
    the exception raised in the with-body."""
    project = run.project
    cms = []
    for f in project.py_funcs():
        decos = [dotted(d) or "" for d in f.node.decorator_list]
        if any(d.split(".")[-1] == "contextmanager" for d in decos):
            cms.append(f)
    for f in cms:
        run.note_func(f)
        bad = None
        for t in [x for x in own_nodes(f.node) if isinstance(x, ast.Try)]:
            has_yield = any(isinstance(y, (ast.Yield, ast.YieldFrom)) for s in t.body for y in ast.walk(s))
            if not has_yield:
                continue
            for s in t.finalbody:
                for y in ast.walk(s):
                    if isinstance(y, ast.Return) or (isinstance(y, (ast.Break, ast.Continue)) and not _in_nested_loop(t.finalbody, y)):
                        bad = (y, "%s inside the finally clause around the yield discards the exception raised in the with-body"
                               % type(y).__name__.lower())
            cfg = CFG(f.node)
            for h in t.handlers:
                hn = [x for x in cfg.nodes if x.kind == "except" and x.ast is h]
                if hn and (cfg.exit.id in cfg.reachable(hn[0].id)):
                    if common.handler_catches(h, "Exception"):
                        bad = (h, "except clause around the yield does not re-raise: the with-body's exception is swallowed")
                    elif h.type is not None and not (set((dotted(x_) or "?").split(".")[-1] for x_ in (h.type.elts if isinstance(h.type, ast.Tuple) else [h.type]))
                                                     <= {"GeneratorExit", "StopIteration", "KeyboardInterrupt"}):
                        names = ", ".join((dotted(x_) or "?") for x_ in (h.type.elts if isinstance(h.type, ast.Tuple) else [h.type]))
                        bad = (h, "except (%s) around the yield does not re-raise: an exception of that class raised by the with-body (the dispatch loop, a "
                               "callback, reading an input) is swallowed, the body is abandoned at that item and the caller returns normally" % names)
        users = [s for s in stages if any(common.resolve_callee(project, s.func, c) is f for c in own_calls(s.func.node))]
        if bad:
            run.violated("C19.R4", f, bad[0], bad[1], kind="context-manager-swallows", used_by=[s.name for s in users])
        else:
            run.holds("C19.R4", f, None, "generator context manager cannot discard an in-flight exception",
                      used_by=[s.name for s in users])


FAILING_CODES = (1, 2, 255, -9, -11)


def _mutated_while_iterated(fnode):
    """[(for stmt, mutating call)] where the body of `for x in L` removes entries from L itself (L.remove / L.pop / del L[..]):
    CPython's list iterator then skips the element that slides into the freed slot."""
    out = []
    for lp in [n for n in ast.walk(fnode) if isinstance(n, ast.For)]:
        key = ast.dump(lp.iter)
        for st_ in lp.body:
            for x in ast.walk(st_):
                if isinstance(x, ast.Call) and isinstance(x.func, ast.Attribute) and x.func.attr in ("remove", "pop", "clear") and ast.dump(x.func.value).replace("Store()", "Load()") == key:
                    out.append((lp, x))
                if isinstance(x, ast.Delete):
                    for t_ in x.targets:
                        if isinstance(t_, ast.Subscript) and ast.dump(t_.value) == key:
                            out.append((lp, x))
    return out


def _r6_status_meaning(run):
    """The *meaning* of every exit-status test: wherever the package raises depending on a worker's ``exitcode``,
    the raise must be reached for every failing exit code (positive codes of an uncaught exception / sys.exit(n) and
    the negative codes of a worker killed by a signal), for every worker of the list handed in.  The conditions are
    the path conditions of the raise events, evaluated over exitcode in {1, 2, 255, -9, -11}; literals about anything
    else than the exit code make the verdict UNDECIDED."""
    from sa import sym, teval
    project = run.project
    n = 0
    # a helper that joins (or inspects) every worker of a list must walk the whole list: taking entries out of it inside that very
    # loop makes the iterator skip the next worker - it is neither waited for nor is its status looked at
    for f in project.py_funcs():
        if "/tests/" in f.module.relpath:
            continue
        for lp, x in _mutated_while_iterated(f.node):
            touches = any((isinstance(y, ast.Attribute) and y.attr == "exitcode") or
                          (isinstance(y, ast.Call) and isinstance(y.func, ast.Attribute) and y.func.attr == "join" and not y.args
                           and isinstance(y.func.value, ast.Name) and isinstance(lp.target, ast.Name) and y.func.value.id == lp.target.id)
                          for y in ast.walk(lp))
            if touches and not any(isinstance(r_, ast.Raise) for r_ in own_nodes(f.node)):
                run.note_func(f)
                run.violated("C19.R6", f, x, "%s takes entries out of `%s` (line %d) inside the loop that joins / inspects the workers in it: the list iterator skips "
                             "the worker that slides into the freed slot, which is then neither waited for nor checked for a failure" % (
                                 f.short, ast.unparse(lp.iter), x.lineno), kind="join-loop-skips-worker")
    for f in project.py_funcs():
        reads = [x for x in own_nodes(f.node) if isinstance(x, ast.Attribute) and x.attr == "exitcode" and isinstance(x.ctx, ast.Load)]
        if not reads or not any(isinstance(x, ast.Raise) for x in own_nodes(f.node)):
            continue
        # only functions where a raise is control dependent on the exit status (same test as the effect summary uses)
        # ... whose value (directly or through locals) reaches a test; a function that only logs the code is not a status test
        tainted = set()
        def mentions(e):
            return any((isinstance(y, ast.Attribute) and y.attr == "exitcode") or (isinstance(y, ast.Name) and y.id in tainted) for y in ast.walk(e))
        for _round in range(3):
            for x in own_nodes(f.node):
                if isinstance(x, ast.Assign) and mentions(x.value):
                    for t in x.targets:
                        tainted |= {y.id for y in ast.walk(t) if isinstance(y, ast.Name)}
                elif isinstance(x, (ast.AnnAssign, ast.NamedExpr)) and x.value is not None and mentions(x.value):
                    tainted |= {y.id for y in ast.walk(x.target) if isinstance(y, ast.Name)}
        guarded = False
        for x in own_nodes(f.node):
            if isinstance(x, (ast.If, ast.While, ast.IfExp, ast.Assert)) and mentions(x.test):
                guarded = True
            if isinstance(x, ast.comprehension) and any(mentions(c) for c in x.ifs):
                guarded = True
            if isinstance(x, ast.Call) and dotted(x.func) in ("any", "all") and x.args and mentions(x.args[0]):
                guarded = True
        if not guarded:
            continue
        n += 1
        run.note_func(f)
        mw = [(lp, x) for lp, x in _mutated_while_iterated(f.node) if any(isinstance(y, ast.Attribute) and y.attr == "exitcode" for y in ast.walk(lp))]
        if mw:
            lp, x = mw[0]
            run.violated("C19.R6", f, x, "%s takes entries out of `%s` (line %d) inside the loop that walks over it to read the exit status: the list iterator skips the "
                         "worker that slides into the freed slot, so in that pass the status of the worker following a cleanly exited one is never looked at" % (
                             f.short, ast.unparse(lp.iter), x.lineno), kind="status-test-not-every-worker")
            continue
        ev = sym.make_evaluator(project, f.module.name, [], inline_local=True)
        try:
            res = ev.run(f.node)
        except Exception as e:  # pragma: no cover
            run.undecided("C19.R6", f, None, "cannot evaluate the status helper: %s" % e, kind="status-test-unevaluated")
            continue
        raises = [e for e in res.events if e.kind == "raise" and not any(c == sym.FALSE and pol for c, pol in e.pc if c != "loop")]
        subjects = set()
        for e in raises:
            for c, _pol in e.pc:
                if c == "loop":
                    continue
                for t in sym.atoms_of(c) | _attr_terms(c):
                    if t[0] == "attr" and t[2] == "exitcode":
                        subjects.add(t)
        if not raises or not subjects:
            run.violated("C19.R6", f, reads[0], "no raise in %s is reachable under a condition on a worker's exit code: a failed worker is not reported"
                         % f.short, kind="status-test-dead")
            continue
        # between finding a failed worker and raising, the helper must not wait without bound for anybody: a surviving worker
        # can be blocked on a bounded queue that only the caller of this helper drains (the walk dispatcher), and then never exits
        def _about_status(pc_):
            return any(c != "loop" and any(t[0] == "attr" and t[2] == "exitcode" for t in (sym.atoms_of(c) | _attr_terms(c))) for c, _p in pc_)
        waits = [e for e in res.events if e.kind == "call" and e.term[1][0] == "attr" and e.term[1][2] == "join" and not e.term[2]
                 and not [k for k, v in e.term[3] if k == "timeout"] and _about_status(e.pc) and e.term[1][1][0] != "const"]
        if waits:
            run.violated("C19.R6", f, waits[0].node, "%s, having found a failed worker, waits for %s to exit (join() without a timeout) before it raises: a surviving worker "
                         "that is blocked on a bounded queue which only the caller drains (the walk's done queue) never exits, so the failure is never reported - the "
                         "operation hangs instead of failing" % (f.short, sym.show(waits[0].term[1][1])[:40]), kind="wait-before-raise")
            continue
        if len(subjects) > 1:
            run.undecided("C19.R6", f, reads[0], "several exit-status subjects: %s" % sorted(sym.show(t) for t in subjects), kind="status-test-subjects")
            continue
        subj = next(iter(subjects))
        who = subj[1]
        params = set(f.params())
        each = who[0] == "elem" and who[1][0] == "sym" and who[1][1] in params
        single = who[0] == "sym" and who[1] in params
        own_list = None
        if not each and who[0] == "elem" and who[1][0] == "attr" and who[1][1] == ("sym", "self") and f.cls is not None:
            # a method of a pool object testing `self.<list>`: every worker, provided the list is what the constructor filled with
            # the processes it started and no method takes entries out of it
            own_list = who[1][2]
            siblings = [g_ for g_ in project.py_funcs() if g_.cls is f.cls]
            filled = False
            shrunk = None
            for g_ in siblings:
                for x in own_nodes(g_.node):
                    if isinstance(x, ast.Call) and isinstance(x.func, ast.Attribute) and isinstance(x.func.value, ast.Attribute) \
                            and isinstance(x.func.value.value, ast.Name) and x.func.value.value.id == "self" and x.func.value.attr == own_list:
                        if x.func.attr == "append" and g_.name == "__init__":
                            filled = True
                        elif x.func.attr in ("remove", "pop", "clear") or (x.func.attr == "append" and g_.name != "__init__"):
                            shrunk = (g_, x)
                    if isinstance(x, (ast.Assign, ast.AugAssign, ast.Delete)) and g_.name != "__init__":
                        tg_ = x.targets if isinstance(x, (ast.Assign, ast.Delete)) else [x.target]
                        for t_ in tg_:
                            for y in ast.walk(t_):
                                if isinstance(y, ast.Attribute) and isinstance(y.value, ast.Name) and y.value.id == "self" and y.attr == own_list:
                                    shrunk = (g_, x)
            if shrunk is not None:
                run.undecided("C19.R6", f, reads[0], "the exit status is tested on the entries of self.%s, which %s changes at line %d: cannot tell whether every started "
                              "worker is still among them when the status is read" % (own_list, shrunk[0].short, shrunk[1].lineno), kind="status-test-subject-unknown")
                continue
            each = filled
        if not (each or single):
            kind_ = "status-test-not-every-worker" if who[0] in ("item", "sub", "last") or (who[0] == "elem" and who[1][0] in ("sub", "item")) else None
            if kind_:
                run.violated("C19.R6", f, reads[0], "the exit status is tested on %s only, not on every worker handed in" % sym.show(who), kind=kind_)
            else:
                run.undecided("C19.R6", f, reads[0], "cannot tell which workers %s ranges over" % sym.show(who), kind="status-test-subject-unknown")
            continue
        from sa import boolalg
        disj = [boolalg.conj(e.pc) for e in raises]
        cond = disj[0] if len(disj) == 1 else ("op", "or", tuple(disj))
        bad = None
        unk = None
        def some_worker(t, rec):
            # any(<test of w> for w in workers [if c]) for a list containing the failing worker: the test on that worker
            arg = None
            if t[0] == "op" and t[1] == "any" and t[2]:
                arg = t[2][0]
            elif t[0] == "call" and t[1] == ("sym", "any") and len(t[2]) == 1:
                arg = t[2][0]
            if arg is not None and arg[0] == "op" and arg[1] == "comp":
                kind__, elt, _it, cnd = arg[2][:4]
                if not ((_it[0] == "sym" and _it[1] in params) or (own_list is not None and _it == ("attr", ("sym", "self"), own_list))):
                    return teval.UNKNOWN
                v_ = rec(elt)
                c_ = rec(cnd)
                if v_ is teval.UNKNOWN or c_ is teval.UNKNOWN:
                    return teval.UNKNOWN
                return bool(v_) and bool(c_)
            if t[0] == "op" and t[1] == "comp" and len(t[2]) >= 4:
                # [<f(w)> for w in workers if <test of w>] used as a condition (`failed = [...]; if failed: raise`): non-empty as soon
                # as the failing worker passes the test -- its own entry stands for the list
                kind__, elt, _it, cnd = t[2][:4]
                if not ((_it[0] == "sym" and _it[1] in params) or (own_list is not None and _it == ("attr", ("sym", "self"), own_list))):
                    return teval.UNKNOWN
                c_ = rec(cnd)
                v_ = rec(elt)
                if c_ is teval.UNKNOWN or v_ is teval.UNKNOWN:
                    return teval.UNKNOWN
                return (v_,) if c_ else ()
            return NotImplemented
        for code in FAILING_CODES:
            v = teval.teval(cond, {subj: code}, hooks=[some_worker])
            if v is teval.UNKNOWN:
                unk = code
            elif not v:
                bad = code
                break
        if bad is not None:
            run.violated("C19.R6", f, reads[0], "a worker that died with exit code %d is not reported: the raise is reached only under `%s`"
                         % (bad, sym.show(cond)[:160]), kind="status-test-misses-code", code=bad)
        elif unk is not None:
            run.undecided("C19.R6", f, reads[0], "the raise also depends on something else than the exit code: `%s`" % sym.show(cond)[:200], kind="status-test-extra-condition")
        else:
            run.holds("C19.R6", f, reads[0], "raises for every failing exit code %s of every worker handed in" % (FAILING_CODES,), condition=sym.show(cond)[:200])
    return n


def _attr_terms(t, acc=None):
    """All ('attr', x, name) sub-terms of a term (atoms_of stops at maximal atoms)."""
    acc = set() if acc is None else acc
    if isinstance(t, tuple):
        if t and t[0] == "attr":
            acc.add(t)
        for x in t:
            if isinstance(x, tuple):
                _attr_terms(x, acc)
    return acc


def _r5_parallelism(run):
    project = run.project
    f = project.fn("toasty.par_util.resolve_parallelism")
    run.note_func(f)
    p = f.params()[0]
    bad = None
    found = False
    for n in own_nodes(f.node):
        if isinstance(n, ast.If):
            assigns = [x for s in n.body for x in ast.walk(s) if isinstance(x, ast.Assign)
                       and any(isinstance(t, ast.Name) and t.id == p for t in x.targets)]
            if not assigns:
                continue
            t = n.test
            names = {x.id for x in ast.walk(t) if isinstance(x, ast.Name)}
            if p not in names:
                continue
            is_none = isinstance(t, ast.Compare) and isinstance(t.left, ast.Name) and t.left.id == p \
                and len(t.ops) == 1 and isinstance(t.ops[0], ast.Is) and isinstance(t.comparators[0], ast.Constant) \
                and t.comparators[0].value is None
            if is_none:
                found = True
                continue
            # a test that is also true for 0 / False (explicit serial requests)
            truthy = (isinstance(t, ast.UnaryOp) and isinstance(t.op, ast.Not)) or \
                     (isinstance(t, ast.Compare) and any(isinstance(c, ast.Constant) and c.value in (0, False) and
                                                         isinstance(o, (ast.Eq, ast.LtE, ast.Lt)) for o, c in zip(t.ops, t.comparators)))
            raises_to = all(isinstance(x.value, ast.Constant) and x.value.value == 1 for x in assigns)
            if truthy and not raises_to:
                bad = (n, "the user's parallelism is replaced by a default under `%s`, which is also true for an explicit "
                          "request for serial processing (0 / False)" % ast.unparse(t))
    if bad:
        run.violated("C19.R5", f, bad[0], bad[1], kind="serial-request-upgraded")
    elif found:
        run.holds("C19.R5", f, None, "only parallel=None is replaced by a default")
    else:
        run.undecided("C19.R5", f, None, "cannot find the `parallel is None` defaulting branch", kind="no-none-branch")
