"""C04 - TOAST tiles partition the sphere, nest exactly, and are route-independent.

R1 level-1 literal table = documented layout (poles, equator diamond, lon 0 right, CCW)
R2 level-1 tile list (position k = 2*y+x, orientation flags) and the planetary offset
R3 _div4: the five midpoints, child (dx,dy) corner table, position algebra, list order,
   orientation inherited (the only midpoint routine is the compiled great-circle `mid`)
R4 who may construct a Tile with corners
R5 all four construction routes start from the same level-1 tiles (with the caller's
   coordinate system) and descend only through _div4, selecting child 2*iy+ix
R6 no history-dependent state (memo tables keyed incompletely, shared scratch containers)
"""
import ast

from sa import sym, boolalg
from sa.sym import show, num, num_value, atoms_of
from sa.cfg import CFG
from sa.model import callee_attr, dotted, own_calls, own_nodes
from . import common, memo, toastgeom
from .toastgeom import T, M, norm_mid

EXPLANATION = (
    "The level-1 corner table (a literal) is evaluated and compared with the documented TOAST layout; _div4 is evaluated "
    "abstractly (same-module helpers inlined, `mid` kept as a commutative atom) and its four children are compared with "
    "the canonical quadrant table, position algebra and list order; a who-may-construct query finds every Tile(...) "
    "construction; each of the four public routes is checked to start from _create_level1_tiles(<its coordsys parameter>) "
    "and to descend only by _div4 with child index 2*iy+ix; a dependence analysis rejects memo tables whose key does not "
    "determine the stored value and shared scratch containers in generators. Route independence follows because all "
    "routes apply one deterministic function chain to the same data; areas/edge equality across parents are not decided."
)

MANIFEST = {
    "technique": "static analysis: literal-table evaluation, canonical-term comparison of the unrolled subdivision, who-may-construct query over every Tile construction form, route reachability and coordinate-system forwarding by parameter binding, partial evaluation of the area helpers, memo-key dependence analysis; memo tables whose key is a projection of the dependency: shared (module-level, class-level, singleton) vs per-instance; a coordinate system counts as in hand through an unused parameter or a field of the class; the midpoint routine of the Python subdivision is the compiled one (no Python stand-in that answers differently on some path); the point-lookup route's level-1 selection and descent (shared with C12)",
    "text": "Decides the documented level-1 layout, the subdivision table, construction ownership, route agreement and absence of history-dependent state; spherical areas and floating-point edge equality are not decided.",
    "note": "Trusted: the compiled great-circle midpoint `mid` (built from _libtoasty.pyx, which cannot be rebuilt offline). Not decided: areas summing to 4*pi, equality of edges between tiles of different parents.",
}


def run(run):
    run.explanation = EXPLANATION
    run.assumptions += ["the prebuilt _libtoasty extension corresponds to toasty/_libtoasty.pyx",
                        "`mid(a, b)` is the symmetric great-circle midpoint"]
    run.undecided_clauses += ["tile areas sum to the sphere", "bit-equality of edges shared by tiles of different parents"]
    for r, n in (("C04.R1", 1), ("C04.R2", 2), ("C04.R3", 4), ("C04.R4", 1), ("C04.R5", 4), ("C04.R6", 1), ("C04.R7", 3)):
        run.floor(r, n)
    _r1_level1(run)
    _r2_level1_tiles(run)
    _r3_div4(run)
    _r4_constructors(run)
    _r5_routes(run)
    _r6_state(run)
    _r7_area(run)


# documented layout: for tile (x, y): which corner (index in UL,UR,LR,LL) is the north pole (square centre),
# which the south pole (square corner); equator points on the side midpoints: right=0, top=90, left=180, bottom=270
_LAYOUT = {
    (0, 0): {"north": 2, "south": 0, 1: 90, 3: 180},
    (1, 0): {"north": 3, "south": 1, 0: 90, 2: 0},
    (0, 1): {"north": 1, "south": 3, 0: 180, 2: 270},
    (1, 1): {"north": 0, "south": 2, 1: 0, 3: 270},
}


def _r1_level1(run):
    project = run.project
    name, rows, node = toastgeom.level1_table(project)
    if rows is None or len(rows) != 4 or any(len(r) != 4 for r in rows):
        run.undecided("C04.R1", None, node, "level-1 corner table (np.radians of a literal 4x4x2 list) not found", kind="no-table",
                      construct="toast.<level1 table>", file="toasty/toast.py")
        return
    bad = []
    for k, cs in enumerate(rows):
        x, y = k % 2, k // 2
        lay = _LAYOUT[(x, y)]
        for ci, (lon, lat) in enumerate(cs):
            if ci == lay["north"]:
                if lat != 90:
                    bad.append("tile (1,%d,%d) corner %d should be the north pole (centre of the square), got (%s, %s)" % (x, y, ci, lon, lat))
            elif ci == lay["south"]:
                if lat != -90:
                    bad.append("tile (1,%d,%d) corner %d should be the south pole (corner of the square), got (%s, %s)" % (x, y, ci, lon, lat))
            else:
                if lat != 0 or (lon % 360) != lay[ci]:
                    bad.append("tile (1,%d,%d) corner %d should be the equator point at longitude %d, got (%s, %s)" % (x, y, ci, lay[ci], lon, lat))
    if bad:
        run.violated("C04.R1", None, node, "level-1 table departs from the documented layout: " + "; ".join(bad[:3]), kind="level1-layout",
                     construct="toast." + name, file="toasty/toast.py", problems=bad)
    else:
        run.holds("C04.R1", None, node, "north pole at the centre, south pole at the corners, equator points 0/90/180/270 at right/top/left/bottom",
                  construct="toast." + name, file="toasty/toast.py", table=rows)


def _row_base(corners, k):
    """X if corners is `X[k]` (X possibly a case distinction, written either as (c ? A : B)[k] or c ? A[k] : B[k])."""
    if corners[0] == "item" and corners[2] == k:
        return corners[1]
    if corners[0] == "sub" and num_value(corners[2]) == k:
        return corners[1]
    if corners[0] == "ite":
        a, b = _row_base(corners[2], k), _row_base(corners[3], k)
        if a is not None and b is not None:
            return ("ite", corners[1], a, b)
    return None


def _r2_level1_tiles(run):
    project = run.project
    f = project.fn(T + "._create_level1_tiles")
    run.note_func(f)
    ev = sym.make_evaluator(project, T, [])
    r = ev.run(f.node)
    coordsys = ("sym", f.params()[0])
    if len(r.returns) != 1 or r.returns[0][1][0] not in ("list", "tuple"):
        run.undecided("C04.R2", f, None, "cannot evaluate the level-1 tile list", kind="tiles-shape")
        return
    tiles = r.returns[0][1][1]
    want_inc = [True, False, False, True]   # diagonal joins the two equatorial corners (checked against the table below)
    name, rows, node = toastgeom.level1_table(project)
    problems = []
    lon_t = None
    if len(tiles) != 4:
        problems.append("expected 4 level-1 tiles, found %d" % len(tiles))
    for k, t in enumerate(tiles[:4]):
        if t[0] != "nt" or t[1] != "Tile":
            problems.append("element %d is not a Tile" % k)
            continue
        pos, corners, inc = t[2]
        x, y = k % 2, k // 2
        if pos != ("nt", "Pos", (num(1), num(x), num(y))):
            problems.append("element %d has position %s, expected Pos(1, %d, %d) (list index 2*y+x)" % (k, show(pos), x, y))
        base_k = _row_base(corners, k)
        if base_k is None:
            problems.append("element %d takes its corners from %s, expected row %d of the level-1 table" % (k, show(corners)[:80], k))
        else:
            lon_t = base_k
        if inc != ("const", want_inc[k]):
            problems.append("tile (1,%d,%d) has increasing=%s, expected %s" % (x, y, show(inc), want_inc[k]))
    # orientation flags agree with the table: the diagonal joins the two equatorial corners
    if rows:
        for k, cs in enumerate(rows):
            eq = [i for i, (lon, lat) in enumerate(cs) if lat == 0]
            if sorted(eq) == [1, 3] and not want_inc[k] or sorted(eq) == [0, 2] and want_inc[k]:
                problems.append("table row %d has its equatorial corners at %s, inconsistent with the orientation flags" % (k, eq))
    if problems:
        run.violated("C04.R2", f, r.returns[0][2], "; ".join(problems[:3]), kind="level1-tiles", problems=problems)
    else:
        run.holds("C04.R2", f, r.returns[0][2], "Tile(Pos(1,x,y), table[2*y+x], [T,F,F,T][2*y+x])")
    # planetary offset: only under coordsys == PLANETARY, on a copy, all corners, +pi mod 2pi
    stores = [e for e in r.events if e.kind == "store" and e.term[1][0][0] == "sub"]
    table = ("sym", name) if name else None
    ok = False
    msg = "no planetary longitude offset found"
    for e in stores:
        lv, val = e.term[1]
        conds = [c for c in e.pc if c[0] != "loop"]
        base = lv[1]
        idx = lv[2]
        want_idx = ("tuple", (("const", Ellipsis), num(0)))
        is_copy = base[0] == "call" and base[1][0] == "attr" and base[1][2] == "copy" and base[1][1] == table
        want_val = ("op", "mod", (sym.add(("sub", base, want_idx), sym.PI), sym.mul(num(2), sym.PI)))
        planetary = [a for a in atoms_of(boolalg.conj(e.pc)) if a[0] == "attr" and a[2] == "PLANETARY"]
        cond_ok = bool(planetary) and boolalg.equiv(boolalg.conj(e.pc), sym.cmp("Eq", coordsys, planetary[0])) is True
        if not is_copy:
            msg = "the planetary offset is applied to %s, not to a copy of the level-1 table (the astronomical table would be altered)" % show(base)[:80]
        elif idx != want_idx:
            msg = "the planetary offset is applied to %s only; it must shift the longitude of every corner ([..., 0])" % show(idx)
        elif val != want_val:
            msg = "planetary longitudes are %s, expected (lon + pi) mod 2*pi" % show(val)[:120]
        elif not cond_ok:
            msg = "the longitude offset is applied under %s, expected exactly coordsys == PLANETARY" % [show(c[0])[:80] for c in conds]
        else:
            ok = True
            conds_planetary = sym.cmp("Eq", coordsys, planetary[0])
            # and the tiles of that branch use the shifted copy
        if ok:
            break
    if ok and lon_t is not None:
        ok2 = lon_t[0] == "ite" and ((lon_t[2][0] in ("call", "new") and lon_t[3] == table and boolalg.equiv(lon_t[1], conds_planetary) is True)
                                     or (lon_t[3][0] in ("call", "new") and lon_t[2] == table and boolalg.equiv(("op", "not", (lon_t[1],)), conds_planetary) is True))
        if not ok2:
            ok = False
            msg = "the tiles are built from %s; expected the shifted copy for PLANETARY and the table itself otherwise" % show(lon_t)[:120]
    if ok:
        run.holds("C04.R2", f, None, "PLANETARY: every corner longitude -> (lon + pi) mod 2pi on a copy; ASTRONOMICAL: table as is")
    else:
        run.violated("C04.R2", f, stores[0].node if stores else None, msg, kind="planetary-offset")


def _r3_div4(run):
    project = run.project
    toastgeom.compiled_midpoint(run, "C04.R3")
    f, tile, kids, r = toastgeom.div4_facts(project)
    run.note_func(f)
    if kids is None:
        run.undecided("C04.R3", f, None, "cannot evaluate _div4 to a list of four Tile(...)", kind="div4-shape")
        return
    cs = ("attr", tile, "corners")
    ul, ur, lr, ll = (("item", cs, i) for i in range(4))
    inc = ("attr", tile, "increasing")
    spec, ce = toastgeom.spec_children(ul, ur, lr, ll, inc)
    pos = ("attr", tile, "pos")
    ev = sym.make_evaluator(project, T, [])
    for k, (kpos, kcorners, kinc) in enumerate(kids):
        dx, dy = k % 2, k // 2
        want_pos = ("nt", "Pos", (ev.expr("p.n + 1", {"p": pos}), ev.expr("2*p.x + %d" % dx, {"p": pos}), ev.expr("2*p.y + %d" % dy, {"p": pos})))
        want_c = ("tuple", spec[(dx, dy)])
        names = ["UL", "UR", "LR", "LL"]
        if kpos != want_pos:
            run.violated("C04.R3", f, r.returns[0][2], "child %d of _div4 has position %s, expected %s (list index 2*dy+dx)" % (k, show(kpos), show(want_pos)),
                         kind="child-position", child=k)
        elif kcorners != want_c:
            diffs = []
            if kcorners[0] == "tuple" and len(kcorners[1]) == 4:
                for i in range(4):
                    if kcorners[1][i] != spec[(dx, dy)][i]:
                        diffs.append("%s is %s, expected %s" % (names[i], _sh(kcorners[1][i], ul, ur, lr, ll, inc), _sh(spec[(dx, dy)][i], ul, ur, lr, ll, inc)))
            run.violated("C04.R3", f, r.returns[0][2], "child (dx=%d, dy=%d) of _div4 has wrong corners: %s" % (dx, dy, "; ".join(diffs) or show(kcorners)[:200]),
                         kind="child-corners", child=k)
        elif kinc != inc:
            run.violated("C04.R3", f, r.returns[0][2], "child %d does not inherit the parent's diagonal orientation (%s)" % (k, show(kinc)), kind="child-orientation", child=k)
        else:
            run.holds("C04.R3", f, r.returns[0][2], "child (dx=%d, dy=%d): corners, position (n+1, 2x+dx, 2y+dy), orientation" % (dx, dy), child=k)


def _sh(t, ul, ur, lr, ll, inc):
    s = show(t)
    for term, nm in ((ul, "ul"), (ur, "ur"), (lr, "lr"), (ll, "ll"), (inc, "increasing")):
        s = s.replace(show(term), nm)
    return s.replace("MID", "mid")[:160]


def _r4_constructors(run):
    project = run.project
    allowed = {T + "._create_level1_tiles", T + "._div4"}
    sites = toastgeom.tile_construction_sites(project)
    run.call_sites += len(sites)
    bad = [(f, c, kind) for f, c, kind in sites if f.qual not in allowed]
    def rewraps(c_):
        # a tile made from an existing tile with other corners (`t._replace(corners=..)`, Tile(t.pos, f(t.corners), ..))
        if isinstance(c_.func, ast.Attribute) and c_.func.attr == "_replace":
            return True
        corners = c_.args[1] if len(c_.args) > 1 else next((k.value for k in c_.keywords if k.arg == "corners"), None)
        return corners is not None and any(isinstance(x, ast.Attribute) and x.attr == "corners" for x in ast.walk(corners))
    if bad:
        for f, c, kind in bad:
            if rewraps(c):
                run.violated("C04.R4", f, c, "%s makes a Tile with corners itself (%s); tiles must come from _create_level1_tiles / _div4 so that "
                             "every route yields identical geometry" % (f.short, kind), kind="tile-constructed-elsewhere")
            else:
                run.undecided("C04.R4", f, c, "%s is a further producer of tiles (%s) beside _create_level1_tiles / _div4: that its geometry is identical to the "
                              "subdivision's is not decided" % (f.short, kind), kind="other-tile-producer")
    else:
        run.holds("C04.R4", project.fn(T + "._div4"), None, "Tiles with corners are made only by _create_level1_tiles and _div4",
                  sites=len(sites))
    owners = {f.qual for f, c, kind in sites}
    if not allowed <= owners:
        run.undecided("C04.R4", None, None, "no Tile(...) construction found in %s (the who-may-construct query sees %d sites)" % (
            sorted(allowed - owners), len(sites)), kind="floor", construct="<Tile sites>", file="toasty/toast.py")


def _local_reach(project, f, seen=None):
    """Qualified names of the toast.py functions reachable from f through direct calls by name."""
    seen = seen if seen is not None else set()
    for c in own_calls(f.node):
        d = dotted(c.func) or ""
        targets = []
        g = project.funcs.get(T + "." + d)
        if g is not None:
            targets.append(g)
        # a class of the module being instantiated: its constructor; a method call `x.m(..)`: every method of that name in the module
        # (the receiver's class is not tracked here -- over-approximating the route can only make this rule more lenient)
        ctor = project.funcs.get(T + "." + d + ".__init__")
        if ctor is not None:
            targets.append(ctor)
        if isinstance(c.func, ast.Attribute):
            targets += [h for h in project.functions_in(T) if h.cls is not None and h.name == c.func.attr]
        for g in targets:
            if g.qual not in seen:
                seen.add(g.qual)
                _local_reach(project, g, seen)
    return seen


def _streams(r):
    """What a generator yields, as (path condition, stream term): `yield from X` and `for i in X: yield i` both give X."""
    out = []
    loops = {k: it for k, it, n in r.loops}
    for pc, v, n in r.yields:
        if v[0] == "star":
            out.append((pc, v[1], n))
            continue
        inner = [c[1] for c in pc if c[0] == "loop"]
        if inner and v == ("elem", loops.get(inner[-1])):
            k = inner[-1]
            i = pc.index(("loop", k))
            if i == len(pc) - 1:
                out.append((pc[:i], loops[k], n))
                continue
        out.append((pc, ("tuple", (v,)), n))
    return out


def _r5_routes(run):
    project = run.project
    ev = sym.make_evaluator(project, T, [])
    # (a) whoever has a coordinate system in hand hands exactly that one to every callee that takes one (package-wide)
    n_fwd = toastgeom.coordsys_forwarding(run, "C04.R5")
    if n_fwd < 4:
        run.undecided("C04.R5", None, None, "only %d coordsys-forwarding call sites found (4 confirmed by hand)" % n_fwd, kind="floor",
                      construct="<coordsys forwarding>", file="toasty/toast.py")
    # (a') the point-lookup route: it starts from the level-1 tile of the requested system that holds the point (the level-1
    # ranges agree with the corner table, per coordinate system) and only ever steps to a child from _div4 (C12.R2 / R3) -
    # otherwise the tile it names at (level, x, y) is not the tile the other routes build there
    from . import C12 as c12
    from . import common as _common

    def lookup(sub):
        c12.run(sub)
    _common.delegate(run, "C04.R5", "C12", lookup, only_rules={"C12.R2", "C12.R3"}, note="premise: the lookup route walks the same tiles as enumeration")
    # (b) generate_tiles delegates to generate_tiles_filtered with an always-true filter
    f = project.fn(T + ".generate_tiles")
    run.note_func(f)
    r = ev.run(f.node)
    cands = [t for pc, t, n in r.returns if not [c for c in pc if c[0] != "loop"]] + [t for pc, t, n in _streams(r) if not pc]
    ok = False
    if len(cands) == 1 and cands[0][0] == "call":
        g, binding = ev.bound_args(cands[0])
        if g is not None and g.qual == T + ".generate_tiles_filtered" and binding:
            flt = binding.get("filter")
            accept_all = False
            if flt is not None and flt[0] == "lambda":
                lam = [n for n, env in r.lambdas if id(n) == flt[2]]
                accept_all = bool(lam) and isinstance(lam[0].body, ast.Constant) and lam[0].body.value is True
            ok = accept_all and binding.get("depth") == ("sym", "depth") and binding.get("bottom_only") == ("sym", "bottom_only") \
                and binding.get("coordsys") == ("sym", "coordsys")
    if ok:
        run.holds("C04.R5", f, None, "generate_tiles = generate_tiles_filtered(depth, always-true, bottom_only, coordsys)")
    else:
        run.violated("C04.R5", f, None, "generate_tiles no longer delegates to generate_tiles_filtered with an accept-all filter and its own "
                     "depth/bottom_only/coordsys", kind="route-generate")
    # (c) every route obtains its tiles from _create_level1_tiles and _div4 (nobody else constructs tiles: R4)
    for q, need in ((T + ".generate_tiles_filtered", ("_create_level1_tiles", "_div4")), (T + ".create_single_tile", ("_create_level1_tiles", "_div4")),
                    (T + ".toast_tile_for_point", ("_create_level1_tiles", "_div4")), (T + "._postfix_corner", ("_div4",))):
        f = project.fn(q)
        run.note_func(f)
        reach = _local_reach(project, f)
        missing = [x for x in need if T + "." + x not in reach]
        if missing:
            run.undecided("C04.R5", f, None, "%s never reaches %s: this route builds or finds its tiles by other means than the others -- that they agree is not decided" % (f.short, missing),
                         kind="route-" + f.name)
        else:
            run.holds("C04.R5", f, None, "%s obtains tiles only through %s" % (f.short, " and ".join(need)))
    # (d) create_single_tile: child 2*iy+ix with ix, iy the bits of pos.x, pos.y at one common bit position; stops at bit 0
    f = project.fn(T + ".create_single_tile")
    r = ev.run(f.node)
    pos = ("sym", f.params()[0])
    problems = []
    lv1 = [e for e in r.events if e.kind == "call" and e.term[1] == ("sym", "_create_level1_tiles")]
    sels = []
    for e in r.events:
        if e.kind == "assign":
            v = e.term[1][1]
            if v[0] == "sub" and v[1][0] == "sym" and "@" in v[1][1]:
                sels.append((e, v))
    if not sels:
        # the descent is written in a form the rule does not follow (a helper picks the sibling, a table maps bits to indices): nothing
        # definite can be said about it from here; (c) above still ties the route to _create_level1_tiles / _div4
        run.undecided("C04.R5", f, None, "create_single_tile: the child selection is not of the form `children[<index from the bits of pos>]` inside the descent loop; "
                      "cannot relate it to 2*iy + ix", kind="route-single-tile-shape")
        return
    d = None
    for e, v in sels:
        idx = v[2]
        shifts = [a for a in atoms_of(idx) if a[0] == "op" and a[1] == "rshift"]
        d = None
        for a in shifts:
            if a[2][0] == ("attr", pos, "x"):
                d = a[2][1]
        if d is None and common.unfollowed_project_calls(project, idx):
            run.undecided("C04.R5", f, e.node, "create_single_tile: the child index %s is computed by a helper that is not followed" % show(idx)[:80], kind="route-single-tile-helper")
            return
        if d is None:
            problems.append("child index %s does not use the bits of pos.x" % show(idx)[:100])
        else:
            want = ev.expr("2*((p.y >> d) & 1) + ((p.x >> d) & 1)", {"p": pos, "d": d})
            if idx != want:
                problems.append("child index is %s, expected 2*iy + ix with ix, iy the bits of pos.x, pos.y" % show(idx)[:140])
    if d is not None and not problems:
        stop = sym.cmp("Eq", d, sym.ZERO)
        rets = [(pc, t) for pc, t, n in r.returns]
        carried = {a for a in atoms_of(d) if a[0] == "sym" and "@" in a[1]}
        conds = [boolalg.conj([c for c in pc if c[0] != "loop" and (atoms_of(c[0]) & carried if carried else True)]) for pc, t in rets]
        if not rets or not any(boolalg.equiv(c, stop) is True for c in conds):
            problems.append("the descent does not stop exactly at bit 0 (level pos.n): returns under %s" % [show(c)[:80] for c in conds])
    if problems:
        run.violated("C04.R5", f, None, "create_single_tile " + "; ".join(problems), kind="route-single-tile", problems=problems)
    else:
        run.holds("C04.R5", f, None, "single tile: children[2*iy+ix] from the bits of (pos.x, pos.y), down to bit 0")


def _r7_area(run):
    """The area of a tile is computed by one exact spherical formula for every tile: the arc length is the law of cosines
    for every pair of points (no regime-dependent approximation), the triangle area uses the three sides of its own three
    vertices, and a tile is the two triangles on either side of its own diagonal."""
    project = run.project
    ev = sym.make_evaluator(project, T, [])
    f = project.funcs.get(T + "._arclength")
    if f is None:
        run.undecided("C04.R7", None, None, "toasty.toast._arclength not found", kind="anchor", construct="_arclength", file="toasty/toast.py")
        return
    run.note_func(f)
    r = ev.run(f.node)
    la1, lo1, la2, lo2 = (("sym", p) for p in f.params()[:4])
    want = ev.expr("np.arccos(np.sin(a) * np.sin(b) + np.cos(c - d) * np.cos(a) * np.cos(b))", {"a": la1, "b": la2, "c": lo1, "d": lo2})
    want2 = ev.expr("np.arccos(np.sin(a) * np.sin(b) + np.cos(d - c) * np.cos(a) * np.cos(b))", {"a": la1, "b": la2, "c": lo1, "d": lo2})
    val = boolalg.fold_returns(r.returns) if r.returns else None
    if val is None:
        run.undecided("C04.R7", f, None, "_arclength returns nothing", kind="arclength-shape")
    elif val in (want, want2):
        run.holds("C04.R7", f, None, "arc length = arccos(sin sin + cos(dlon) cos cos) for every pair of points")
    elif val[0] == "ite" or len(r.returns) > 1:
        run.violated("C04.R7", f, r.returns[0][2], "_arclength uses different formulas depending on its arguments (%s): an approximation for some arcs makes the areas of the "
                     "tiles it bounds inexact, so areas no longer add up to the sphere / to the parent's area" % show(val[1] if val[0] == "ite" else val)[:100],
                     kind="arclength-regimes")
    else:
        run.undecided("C04.R7", f, None, "_arclength is %s; cannot relate it to the spherical law of cosines" % show(val)[:120], kind="arclength-formula")
    g = project.funcs.get(T + "._spherical_triangle_area")
    h = project.funcs.get(T + ".toast_tile_area")
    if g is None or h is None:
        run.undecided("C04.R7", None, None, "triangle / tile area functions not found", kind="anchor", construct="toast_tile_area", file="toasty/toast.py")
        return
    run.note_func(g, h)
    rg = ev.run(g.node)
    ps = [("sym", p) for p in g.params()[:6]]
    V = [(ps[0], ps[1]), (ps[2], ps[3]), (ps[4], ps[5])]
    arcs = [e for e in rg.events if e.kind == "call" and e.term[1] == ("sym", "_arclength") and len(e.term[2]) == 4]
    sides = set()
    for e in arcs:
        a = e.term[2]
        p1, p2 = (a[0], a[1]), (a[2], a[3])
        if p1 in V and p2 in V and p1 != p2:
            sides.add(frozenset((V.index(p1), V.index(p2))))
    if len(arcs) == 3 and sides == {frozenset((0, 1)), frozenset((1, 2)), frozenset((0, 2))}:
        run.holds("C04.R7", g, None, "triangle area from the three sides joining its own three vertices (lat, lon pairs kept together)")
    else:
        run.violated("C04.R7", g, arcs[0].node if arcs else None, "_spherical_triangle_area does not take the arc lengths of the three sides of its own triangle "
                     "(%d arcs, sides %s)" % (len(arcs), sorted(sorted(x) for x in sides)), kind="triangle-sides")
    # a tile = two triangles sharing its diagonal: increasing -> (ul, ur, ll) + (ur, lr, ll); else (ul, ur, lr) + (ul, ll, lr).
    # Decided by evaluating toast_tile_area under each orientation (local helpers inlined).
    tile = ("sym", h.params()[0])
    cs = ("attr", tile, "corners")
    corner = lambda i: (("item", ("item", cs, i), 1), ("item", ("item", cs, i), 0))      # (lat, lon) = (c[1], c[0])
    inc = ("attr", tile, "increasing")
    want_t = {True: {frozenset((0, 1, 3)), frozenset((1, 2, 3))}, False: {frozenset((0, 1, 2)), frozenset((0, 3, 2))}}
    got = {}
    okc = True
    first_node = None
    for pol in (True, False):
        ev2 = sym.make_evaluator(project, T, [], inline_local=True, no_inline=("_spherical_triangle_area", "_arclength"))
        ev2.assume = (lambda c, pol=pol: pol if c == inc else None)
        rh = ev2.run(h.node)
        tri = [e for e in rh.events if e.kind == "call" and e.term[1] == ("sym", "_spherical_triangle_area") and len(e.term[2]) == 6]
        first_node = first_node or (tri[0].node if tri else None)
        got[pol] = []
        for e in tri:
            a = e.term[2]
            vs = []
            for j in range(3):
                pr = (a[2 * j], a[2 * j + 1])
                idx = [i for i in range(4) if corner(i) == pr]
                if not idx:
                    okc = False
                else:
                    vs.append(idx[0])
            got[pol].append(frozenset(vs))
        total = boolalg.fold_returns(rh.returns)
        if okc and total is not None and len(tri) == 2:
            want_sum = sym.add(tri[0].term, tri[1].term)
            if total != want_sum:
                okc = False
    if okc and all(set(got[p_]) == want_t[p_] and len(got[p_]) == 2 for p_ in (True, False)):
        run.holds("C04.R7", h, None, "tile area = the two triangles on either side of the tile's own diagonal, corners taken as (lat, lon) = (c[1], c[0])")
    else:
        run.violated("C04.R7", h, first_node, "toast_tile_area is not the sum of the two triangles on either side of the tile's own diagonal "
                     "(increasing: %s, otherwise: %s)" % ([sorted(x) for x in got.get(True, [])], [sorted(x) for x in got.get(False, [])]), kind="tile-triangles")


def _r6_state(run):
    n = memo.check_module(run, "C04.R6", T)
    if not memo.selfcheck():
        run.undecided("C04.R6", None, None, "built-in positive example of the memo rule was not flagged", kind="selfcheck", construct="<memo selfcheck>")
    if not [o for o in run.obs if o.rule == "C04.R6"]:
        run.holds("C04.R6", run.project.fn(T + "._div4"), None, "toasty.toast keeps no memo table / shared scratch container (0 uses); "
                  "built-in positive example flagged", table_uses=n)
