"""C04 - TOAST tiles partition the sphere, nest exactly, and are route-independent.

R1 level-1 literal table = documented layout (poles, equator diamond, lon 0 right, CCW)
R2 level-1 tile list (position k = 2*y+x, orientation flags) and the planetary offset
R3 _div4: the five midpoints, child (dx,dy) corner table, position algebra, list order,
   orientation inherited (the only midpoint routine is the compiled great-circle `mid`)
R4 who may construct a Tile with corners
R5 all four construction routes start from the same level-1 tiles (with the caller's
   coordinate system) and descend only through _div4, selecting child 2*iy+ix
R6 no history-dependent state (memo tables keyed incompletely, shared scratch containers)
"""
import ast

from sa import sym
from sa.sym import show, num, num_value, atoms_of
from sa.cfg import CFG
from sa.model import callee_attr, dotted, own_calls, own_nodes
from . import common, memo, toastgeom
from .toastgeom import T, M, norm_mid

EXPLANATION = (
    "The level-1 corner table (a literal) is evaluated and compared with the documented TOAST layout; _div4 is evaluated "
    "abstractly (same-module helpers inlined, `mid` kept as a commutative atom) and its four children are compared with "
    "the canonical quadrant table, position algebra and list order; a who-may-construct query finds every Tile(...) "
    "construction; each of the four public routes is checked to start from _create_level1_tiles(<its coordsys parameter>) "
    "and to descend only by _div4 with child index 2*iy+ix; a dependence analysis rejects memo tables whose key does not "
    "determine the stored value and shared scratch containers in generators. Route independence follows because all "
    "routes apply one deterministic function chain to the same data; areas/edge equality across parents are not decided."
)

MANIFEST = {
    "technique": "static analysis: literal-table evaluation, canonical-term comparison of the subdivision, who-may-construct and route-agreement queries, memo-key dependence analysis",
    "text": "Decides the documented level-1 layout, the subdivision table, construction ownership, route agreement and absence of history-dependent state; spherical areas and floating-point edge equality are not decided.",
    "note": "Trusted: the compiled great-circle midpoint `mid` (built from _libtoasty.pyx, which cannot be rebuilt offline). Not decided: areas summing to 4*pi, equality of edges between tiles of different parents.",
}


def run(run):
    run.explanation = EXPLANATION
    run.assumptions += ["the prebuilt _libtoasty extension corresponds to toasty/_libtoasty.pyx",
                        "`mid(a, b)` is the symmetric great-circle midpoint"]
    run.undecided_clauses += ["tile areas sum to the sphere", "bit-equality of edges shared by tiles of different parents"]
    for r, n in (("C04.R1", 1), ("C04.R2", 2), ("C04.R3", 4), ("C04.R4", 1), ("C04.R5", 4), ("C04.R6", 1)):
        run.floor(r, n)
    _r1_level1(run)
    _r2_level1_tiles(run)
    _r3_div4(run)
    _r4_constructors(run)
    _r5_routes(run)
    _r6_state(run)


# documented layout: for tile (x, y): which corner (index in UL,UR,LR,LL) is the north pole (square centre),
# which the south pole (square corner); equator points on the side midpoints: right=0, top=90, left=180, bottom=270
_LAYOUT = {
    (0, 0): {"north": 2, "south": 0, 1: 90, 3: 180},
    (1, 0): {"north": 3, "south": 1, 0: 90, 2: 0},
    (0, 1): {"north": 1, "south": 3, 0: 180, 2: 270},
    (1, 1): {"north": 0, "south": 2, 1: 0, 3: 270},
}


def _r1_level1(run):
    project = run.project
    name, rows, node = toastgeom.level1_table(project)
    if rows is None or len(rows) != 4 or any(len(r) != 4 for r in rows):
        run.undecided("C04.R1", None, node, "level-1 corner table (np.radians of a literal 4x4x2 list) not found", kind="no-table",
                      construct="toast.<level1 table>", file="toasty/toast.py")
        return
    bad = []
    for k, cs in enumerate(rows):
        x, y = k % 2, k // 2
        lay = _LAYOUT[(x, y)]
        for ci, (lon, lat) in enumerate(cs):
            if ci == lay["north"]:
                if lat != 90:
                    bad.append("tile (1,%d,%d) corner %d should be the north pole (centre of the square), got (%s, %s)" % (x, y, ci, lon, lat))
            elif ci == lay["south"]:
                if lat != -90:
                    bad.append("tile (1,%d,%d) corner %d should be the south pole (corner of the square), got (%s, %s)" % (x, y, ci, lon, lat))
            else:
                if lat != 0 or (lon % 360) != lay[ci]:
                    bad.append("tile (1,%d,%d) corner %d should be the equator point at longitude %d, got (%s, %s)" % (x, y, ci, lay[ci], lon, lat))
    if bad:
        run.violated("C04.R1", None, node, "level-1 table departs from the documented layout: " + "; ".join(bad[:3]), kind="level1-layout",
                     construct="toast." + name, file="toasty/toast.py", problems=bad)
    else:
        run.holds("C04.R1", None, node, "north pole at the centre, south pole at the corners, equator points 0/90/180/270 at right/top/left/bottom",
                  construct="toast." + name, file="toasty/toast.py", table=rows)


def _r2_level1_tiles(run):
    project = run.project
    f = project.fn(T + "._create_level1_tiles")
    run.note_func(f)
    ev = sym.make_evaluator(project, T, [])
    r = ev.run(f.node)
    coordsys = ("sym", f.params()[0])
    if len(r.returns) != 1 or r.returns[0][1][0] not in ("list", "tuple"):
        run.undecided("C04.R2", f, None, "cannot evaluate the level-1 tile list", kind="tiles-shape")
        return
    tiles = r.returns[0][1][1]
    want_inc = [True, False, False, True]   # diagonal joins the two equatorial corners (checked against the table below)
    name, rows, node = toastgeom.level1_table(project)
    problems = []
    lon_t = None
    if len(tiles) != 4:
        problems.append("expected 4 level-1 tiles, found %d" % len(tiles))
    for k, t in enumerate(tiles[:4]):
        if t[0] != "nt" or t[1] != "Tile":
            problems.append("element %d is not a Tile" % k)
            continue
        pos, corners, inc = t[2]
        x, y = k % 2, k // 2
        if pos != ("nt", "Pos", (num(1), num(x), num(y))):
            problems.append("element %d has position %s, expected Pos(1, %d, %d) (list index 2*y+x)" % (k, show(pos), x, y))
        if not (corners[0] == "sub" and num_value(corners[2]) == k):
            problems.append("element %d takes its corners from %s, expected row %d of the level-1 table" % (k, show(corners)[:80], k))
        else:
            lon_t = corners[1]
        if inc != ("const", want_inc[k]):
            problems.append("tile (1,%d,%d) has increasing=%s, expected %s" % (x, y, show(inc), want_inc[k]))
    # orientation flags agree with the table: the diagonal joins the two equatorial corners
    if rows:
        for k, cs in enumerate(rows):
            eq = [i for i, (lon, lat) in enumerate(cs) if lat == 0]
            if sorted(eq) == [1, 3] and not want_inc[k] or sorted(eq) == [0, 2] and want_inc[k]:
                problems.append("table row %d has its equatorial corners at %s, inconsistent with the orientation flags" % (k, eq))
    if problems:
        run.violated("C04.R2", f, r.returns[0][2], "; ".join(problems[:3]), kind="level1-tiles", problems=problems)
    else:
        run.holds("C04.R2", f, r.returns[0][2], "Tile(Pos(1,x,y), table[2*y+x], [T,F,F,T][2*y+x])")
    # planetary offset: only under coordsys == PLANETARY, on a copy, all corners, +pi mod 2pi
    stores = [e for e in r.events if e.kind == "store" and e.term[1][0][0] == "sub"]
    table = ("sym", name) if name else None
    ok = False
    msg = "no planetary longitude offset found"
    for e in stores:
        lv, val = e.term[1]
        conds = [c for c in e.pc if c[0] != "loop"]
        base = lv[1]
        idx = lv[2]
        want_idx = ("tuple", (("const", Ellipsis), num(0)))
        is_copy = base[0] == "call" and base[1][0] == "attr" and base[1][2] == "copy" and base[1][1] == table
        want_val = ("op", "mod", (sym.add(("sub", base, want_idx), sym.PI), sym.mul(num(2), sym.PI)))
        cond_ok = len(conds) == 1 and conds[0][1] is True and conds[0][0][0] == "op" and conds[0][0][1] == "cmp:Eq" \
            and coordsys in conds[0][0][2] and any("PLANETARY" in show(x) for x in conds[0][0][2])
        if not is_copy:
            msg = "the planetary offset is applied to %s, not to a copy of the level-1 table (the astronomical table would be altered)" % show(base)[:80]
        elif idx != want_idx:
            msg = "the planetary offset is applied to %s only; it must shift the longitude of every corner ([..., 0])" % show(idx)
        elif val != want_val:
            msg = "planetary longitudes are %s, expected (lon + pi) mod 2*pi" % show(val)[:120]
        elif not cond_ok:
            msg = "the longitude offset is applied under %s, expected exactly coordsys == PLANETARY" % [show(c[0])[:80] for c in conds]
        else:
            ok = True
            # and the tiles of that branch use the shifted copy
        if ok:
            break
    if ok and lon_t is not None:
        ok2 = lon_t[0] == "ite" and lon_t[2][0] == "call" and lon_t[3] == table
        if not ok2:
            ok = False
            msg = "the tiles are built from %s; expected the shifted copy for PLANETARY and the table itself otherwise" % show(lon_t)[:120]
    if ok:
        run.holds("C04.R2", f, None, "PLANETARY: every corner longitude -> (lon + pi) mod 2pi on a copy; ASTRONOMICAL: table as is")
    else:
        run.violated("C04.R2", f, stores[0].node if stores else None, msg, kind="planetary-offset")


def _r3_div4(run):
    project = run.project
    f, tile, kids, r = toastgeom.div4_facts(project)
    run.note_func(f)
    if kids is None:
        run.undecided("C04.R3", f, None, "cannot evaluate _div4 to a list of four Tile(...)", kind="div4-shape")
        return
    cs = ("attr", tile, "corners")
    ul, ur, lr, ll = (("item", cs, i) for i in range(4))
    inc = ("attr", tile, "increasing")
    spec, ce = toastgeom.spec_children(ul, ur, lr, ll, inc)
    pos = ("attr", tile, "pos")
    ev = sym.make_evaluator(project, T, [])
    for k, (kpos, kcorners, kinc) in enumerate(kids):
        dx, dy = k % 2, k // 2
        want_pos = ("nt", "Pos", (ev.expr("p.n + 1", {"p": pos}), ev.expr("2*p.x + %d" % dx, {"p": pos}), ev.expr("2*p.y + %d" % dy, {"p": pos})))
        want_c = ("tuple", spec[(dx, dy)])
        names = ["UL", "UR", "LR", "LL"]
        if kpos != want_pos:
            run.violated("C04.R3", f, r.returns[0][2], "child %d of _div4 has position %s, expected %s (list index 2*dy+dx)" % (k, show(kpos), show(want_pos)),
                         kind="child-position", child=k)
        elif kcorners != want_c:
            diffs = []
            if kcorners[0] == "tuple" and len(kcorners[1]) == 4:
                for i in range(4):
                    if kcorners[1][i] != spec[(dx, dy)][i]:
                        diffs.append("%s is %s, expected %s" % (names[i], _sh(kcorners[1][i], ul, ur, lr, ll, inc), _sh(spec[(dx, dy)][i], ul, ur, lr, ll, inc)))
            run.violated("C04.R3", f, r.returns[0][2], "child (dx=%d, dy=%d) of _div4 has wrong corners: %s" % (dx, dy, "; ".join(diffs) or show(kcorners)[:200]),
                         kind="child-corners", child=k)
        elif kinc != inc:
            run.violated("C04.R3", f, r.returns[0][2], "child %d does not inherit the parent's diagonal orientation (%s)" % (k, show(kinc)), kind="child-orientation", child=k)
        else:
            run.holds("C04.R3", f, r.returns[0][2], "child (dx=%d, dy=%d): corners, position (n+1, 2x+dx, 2y+dy), orientation" % (dx, dy), child=k)


def _sh(t, ul, ur, lr, ll, inc):
    s = show(t)
    for term, nm in ((ul, "ul"), (ur, "ur"), (lr, "lr"), (ll, "ll"), (inc, "increasing")):
        s = s.replace(show(term), nm)
    return s.replace("MID", "mid")[:160]


def _r4_constructors(run):
    project = run.project
    allowed = {T + "._create_level1_tiles", T + "._div4"}
    sites = []
    for f in project.py_funcs():
        for c in own_calls(f.node):
            d = dotted(c.func) or ""
            if d.split(".")[-1] == "Tile" and (c.args or c.keywords):
                sites.append((f, c))
    run.call_sites += len(sites)
    bad = []
    for f, c in sites:
        if f.qual in allowed:
            continue
        # the documented corner-less level-0 tile
        corners = c.args[1] if len(c.args) > 1 else next((k.value for k in c.keywords if k.arg == "corners"), None)
        if isinstance(corners, ast.Tuple) and all(isinstance(e, ast.Constant) and e.value is None for e in corners.elts):
            continue
        bad.append((f, c))
    if bad:
        for f, c in bad:
            run.violated("C04.R4", f, c, "%s constructs a Tile with corners itself; tiles must come from _create_level1_tiles / _div4 so that "
                         "every route yields identical geometry" % f.short, kind="tile-constructed-elsewhere")
    else:
        run.holds("C04.R4", project.fn(T + "._div4"), None, "Tile(...) with corners is constructed only by _create_level1_tiles and _div4",
                  sites=len(sites))
    if len(sites) < 9:
        run.undecided("C04.R4", None, None, "only %d Tile(...) construction sites found (9 confirmed by hand)" % len(sites), kind="floor",
                      construct="<Tile sites>", file="toasty/toast.py")


def _r5_routes(run):
    project = run.project
    ev = sym.make_evaluator(project, T, [])
    # (a) generate_tiles delegates to generate_tiles_filtered with an always-true filter
    f = project.fn(T + ".generate_tiles")
    run.note_func(f)
    r = ev.run(f.node)
    ok = False
    if len(r.returns) == 1:
        t = r.returns[0][1]
        if t[0] == "call" and t[1] == ("sym", "generate_tiles_filtered") and len(t[2]) >= 3 and t[2][0] == ("sym", "depth") \
                and t[2][2] == ("sym", "bottom_only") and dict(t[3]).get("coordsys") == ("sym", "coordsys") and t[2][1][0] == "lambda":
            lam = [n for n, env in r.lambdas]
            ok = bool(lam) and isinstance(lam[0].body, ast.Constant) and lam[0].body.value is True
    if ok:
        run.holds("C04.R5", f, None, "generate_tiles = generate_tiles_filtered(depth, always-true, bottom_only, coordsys)")
    else:
        run.violated("C04.R5", f, None, "generate_tiles no longer delegates to generate_tiles_filtered with an accept-all filter and its own "
                     "depth/bottom_only/coordsys", kind="route-generate")
    # (b) generate_tiles_filtered starts from _create_level1_tiles(coordsys), descends with _postfix_corner
    f = project.fn(T + ".generate_tiles_filtered")
    run.note_func(f)
    r = ev.run(f.node)
    lv1 = ("call", ("sym", "_create_level1_tiles"), (("sym", "coordsys"),), ())
    loops = [(k, it, n) for k, it, n in r.loops if it == lv1]
    pc_calls = [e for e in r.events if e.kind == "call" and e.term[1] == ("sym", "_postfix_corner")]
    ok = bool(loops) and len(pc_calls) == 1
    if ok:
        el = ("elem", lv1)
        e = pc_calls[0]
        ok = e.term[2] == (el, ("sym", "depth"), ("sym", "filter"), ("sym", "bottom_only"))
        conds = [c for c in e.pc if c[0] != "loop"]
        ok = ok and conds == [(("call", ("sym", "filter"), (el,), ()), True)]
    if ok:
        run.holds("C04.R5", f, None, "enumeration: for t in level-1 tiles(coordsys): if filter(t): _postfix_corner(t, depth, filter, bottom_only)")
    else:
        run.violated("C04.R5", f, None, "filtered enumeration no longer starts from _create_level1_tiles(coordsys) and descends each accepted "
                     "level-1 tile with _postfix_corner(t, depth, filter, bottom_only)", kind="route-enumeration")
    # (c) create_single_tile
    f = project.fn(T + ".create_single_tile")
    run.note_func(f)
    r = ev.run(f.node)
    pos = ("sym", f.params()[0])
    problems = []
    ch_assign = [e for e in r.events if e.kind == "assign" and e.term[1][0] == ("sym", "children")]
    vals = [e.term[1][1] for e in ch_assign]
    if not vals or vals[0] != ("call", ("sym", "_create_level1_tiles"), (("sym", f.params()[1]),), ()):
        problems.append("does not start from _create_level1_tiles(coordsys)")
    deeper = [v for v in vals[1:]]
    tile_assign = [e for e in r.events if e.kind == "assign" and e.term[1][0] == ("sym", "tile")]
    if not tile_assign:
        problems.append("no child selection found")
    else:
        sel = tile_assign[-1].term[1][1]
        if sel[0] != "sub":
            problems.append("child selection %s is not an index into the children list" % show(sel)[:80])
        else:
            idx = sel[2]
            shifts = [a for a in atoms_of(idx) if a[0] == "op" and a[1] == "rshift"]
            d = None
            for a in shifts:
                if a[2][0] == ("attr", pos, "x"):
                    d = a[2][1]
            if d is None:
                problems.append("child index %s does not use the bits of pos.x" % show(idx)[:100])
            else:
                want = ev.expr("2*((p.y >> d) & 1) + ((p.x >> d) & 1)", {"p": pos, "d": d})
                if idx != want:
                    problems.append("child index is %s, expected 2*iy + ix with ix, iy the bits of pos.x, pos.y" % show(idx)[:140])
                # the shift is pos.n - current level
                dd = sym.sub(("attr", pos, "n"), d)
                if not (dd[0] == "sym" or dd[0] == "poly"):
                    problems.append("bit position %s is not pos.n minus the current level" % show(d))
        for v in deeper:
            if v[0] == "call" and v[1][0] == "sym" and v[1][1] != "_div4" and len(v[2]) == 1:
                w = project.funcs.get(T + "." + v[1][1])
                if w is not None and any(dotted(c.func) == "_div4" for c in own_calls(w.node)):
                    continue    # a wrapper around _div4: its soundness (e.g. a cache) is decided by R6
            if not (v[0] == "call" and v[1] == ("sym", "_div4") and len(v[2]) == 1):
                problems.append("descends with %s instead of _div4(tile)" % show(v)[:80])
            elif tile_assign and v[2][0] != tile_assign[-1].term[1][1] and v[2][0][0] != "sym":
                pass
        if not deeper:
            problems.append("never descends with _div4")
    rets = [t for pc, t, n in r.returns]
    if problems:
        run.violated("C04.R5", f, None, "create_single_tile " + "; ".join(problems), kind="route-single-tile", problems=problems)
    else:
        run.holds("C04.R5", f, None, "single tile: level-1 tiles(coordsys), then children[2*iy+ix] / _div4 from the most significant bit down")
    # (d) toast_tile_for_point: level-1 tiles of the caller's coordsys; replaced only by elements of _div4(tile)
    f = project.fn(T + ".toast_tile_for_point")
    run.note_func(f)
    r = ev.run(f.node)
    problems = []
    lv1p = ("call", ("sym", "_create_level1_tiles"), (("sym", "coordsys"),), ())
    if not [1 for k, it, n in r.loops if it == lv1p]:
        problems.append("does not start from _create_level1_tiles(coordsys)")
    div_loops = [(k, it, n) for k, it, n in r.loops if it[0] == "call" and it[1] == ("sym", "_div4")]
    if not div_loops:
        problems.append("does not descend through _div4")
    for e in r.events:
        if e.kind == "assign" and e.term[1][0] == ("sym", "tile"):
            v = e.term[1][1]
            in_div = any(("loop", k) in e.pc for k, it, n in div_loops)
            if in_div:
                k, it, n = [x for x in div_loops if ("loop", x[0]) in e.pc][-1]
                if v != ("elem", it):
                    problems.append("the current tile is replaced by %s, not by a child from _div4" % show(v)[:80])
            elif v != ("elem", lv1p):
                problems.append("the current tile is set to %s outside the level-1 / _div4 loops" % show(v)[:80])
    for k, it, n in div_loops:
        if it[2] and it[2][0][0] not in ("sym", "ite", "elem"):
            problems.append("_div4 is applied to %s" % show(it[2][0])[:60])
    if problems:
        run.violated("C04.R5", f, None, "toast_tile_for_point " + "; ".join(problems[:3]), kind="route-point-lookup", problems=problems)
    else:
        run.holds("C04.R5", f, None, "point lookup: level-1 tiles(coordsys), current tile only ever replaced by an element of _div4(current)")
    # (e) _postfix_corner descends with _div4(tile) -- also C01.R6
    f = project.fn(T + "._postfix_corner")
    run.note_func(f)
    loops = [n for n in own_nodes(f.node) if isinstance(n, ast.For) and isinstance(n.iter, ast.Call) and dotted(n.iter.func) == "_div4"
             and len(n.iter.args) == 1 and isinstance(n.iter.args[0], ast.Name) and n.iter.args[0].id == f.params()[0]]
    any_div4 = [c for c in own_calls(f.node) if dotted(c.func) == "_div4"]
    if loops:
        run.holds("C04.R5", f, loops[0], "depth-first enumeration descends with _div4(tile)")
    elif any_div4:
        run.holds("C04.R5", f, any_div4[0], "enumeration obtains children only from _div4 (iteration shape decided by C01.R6/C13.R2)")
    else:
        run.violated("C04.R5", f, None, "_postfix_corner never calls _div4: the enumeration route builds tiles differently",
                     kind="route-postfix")


def _r6_state(run):
    n = memo.check_module(run, "C04.R6", T)
    if not memo.selfcheck():
        run.undecided("C04.R6", None, None, "built-in positive example of the memo rule was not flagged", kind="selfcheck", construct="<memo selfcheck>")
    if not [o for o in run.obs if o.rule == "C04.R6"]:
        run.holds("C04.R6", run.project.fn(T + "._div4"), None, "toasty.toast keeps no memo table / shared scratch container (0 uses); "
                  "built-in positive example flagged", table_uses=n)
