"""C06 - TOAST sampling writes the sampler's values at each tile's own pixel centres.

R1  data flow of the leaf callback: coords of its own tile -> sampler(lon, lat) ->
    optional row reversal -> stored at its own position
R2  rows reversed exactly when the tiles are written in a bottom-up format
    (truth table over clobber x format override x default format)
R2b every parity decision in the package derives from the format that is written
R3  sample_layer clobbers, sample_layer_filtered updates (masked default, full-tile
    indexers); both build the pyramid with the caller's depth / filter / coordinate system
R4  None-safety of the leaf callback's tile (depth 0)
R5  leaf-visit stage: handshake / worker protocol (C03 rules on this stage)
R8  the command line's projection dispatch: every documented --projection type builds the documented sampler over the
    loaded image's array with the documented planetary / panorama flags; unknown types are refused
R9  Builder.toast_base samples in the caller's explicit coordinate system, else PLANETARY exactly when is_planet, forwards its
    own sampler / depth / pyramid I/O and publishes the PLANET data-set type exactly when is_planet
"""
import ast
import itertools

from sa import sym, boolalg, report
from sa.sym import show, num, num_value, atoms_of
from sa.teval import teval, UNKNOWN
from sa.model import dotted, own_calls, own_nodes
from . import common, parity
from . import C03 as c03
from . import C13 as c13

T = "toasty.toast"
P = "toasty.pyramid"

EXPLANATION = (
    "ToastSampler.visit_callback is evaluated abstractly: the stored array must be sampler(lon, lat) with (lon, lat) the two "
    "results of toast_tile_get_coords(<the callback's tile>), optionally reversed along axis 0, written/updated at the "
    "callback's own position. The reversal flag computed in __init__ is decided by a truth table over the finite abstract "
    "domain clobber x format override {None, 'fits', other, <builtin>} x default format {'fits', other}: it must equal "
    "'the format the tile is written in is FITS'. Constructor calls in sample_layer/_filtered, the pyramid factories and "
    "_generator are checked to forward depth, filter and coordinate system. A nullness analysis follows the None tile of "
    "the level-0 position to the callback. The C03 stage rules are applied to the leaf-visit stage."
)

MANIFEST = {
    "technique": "static analysis: term-level data-flow of the leaf callback with role discovery of the reversal flag, exhaustive evaluation of the parity decision over clobber x format x default format, argument forwarding by parameter binding (dead parameter), inter-procedural nullness, CFG stage rules, memo-key dependence analysis; package-wide coordinate-system forwarding; per-mode update convention shared with C15; tile paths evaluated per naming scheme (shared with C17); handler-swallow analysis of the leaf-visit worker (shared with C19); pool objects taken apart before the stage analysis; methods of the pyramid I/O object evaluated per truth-table row; partial evaluation of the command line's projection dispatch per documented projection type (sampler factory, planetary / panorama flags, depth); Builder.toast_base evaluated per flag combination (coordinate system, forwarding, published data-set type)",
    "text": "Decides the structural premises of 'each tile holds the sampler's values at its own pixel centres in the right row order for every mode/format/worker count'; sampler values themselves are not decided.",
    "note": "Trusted: numpy slicing [::-1] reverses axis 0; Image.from_array keeps the array. Not decided: values returned by samplers (C11), pixel-centre geometry (C05).",
}


def run(run):
    run.explanation = EXPLANATION
    run.assumptions += ["numpy: a[::-1] reverses the first axis"]
    run.undecided_clauses += ["numerical values produced by the sampler callables"]
    for r, n in (("C06.R1", 1), ("C06.R2", 1), ("C06.R2b", 4), ("C06.R3", 5), ("C06.R4", 1), ("C06.R5", 4), ("C06.R6", 1), ("C06.R7", 6), ("C06.R8", 8), ("C06.R9", 9)):
        run.floor(r, n)
    _r1_r2(run)
    parity.check(run, "C06.R2b", skip_classes=("ToastSampler",))
    _r2b_sampler(run)
    _r3(run)
    # ... and on the way there: whoever has the coordinate system in hand (builder, pyramid, sampling entry points) passes it on
    from . import toastgeom
    toastgeom.coordsys_forwarding(run, "C06.R3", only_callers=None)
    _r4(run)
    _r5(run)
    _r8_cli(run)
    _r9_toast_base(run)
    # updating mode stores the sampler's values through update_into_maskable_buffer: exactly the defined source pixels are
    # copied, per mode (C15's convention rule, evaluated per mode; reported here as a premise)
    from . import C15 as c15
    from . import common as _common

    def conv(sub):
        members = c15._enum_members(sub.project)
        if len(members) >= 8:
            chains = c15._r1_chains(sub, members)
            c15._r2_conventions(sub, members, chains)
    _common.delegate(run, "C06.R7", "C15", conv, only_rules={"C15.R2"}, note="premise of 'updating mode writes the sampler's values'")
    # "a file for each tile": the file a tile is written to is the one named after its own position, under every naming scheme
    from . import C17 as c17
    _common.delegate(run, "C06.R1", "C17", lambda sub: c17._r1_paths(sub, "C17.R1"), only_rules={"C17.R1"}, note="premise: the tile's file is named after its own position")
    # the pixel centres handed to the sampler are those of *this* tile in *this* coordinate system: no remembered grid
    # keyed by less than what determines it
    from . import memo
    n_tab = memo.check_module(run, "C06.R6", T)
    if not memo.selfcheck():
        run.undecided("C06.R6", None, None, "memo rule self-check failed", kind="selfcheck", construct="<memo selfcheck>")
    if not [o for o in run.obs if o.rule == "C06.R6"]:
        run.holds("C06.R6", project_fn(run, T + ".toast_tile_get_coords"), None, "no memo table / shared scratch container in toasty.toast (%d uses); positive example flagged" % n_tab)


def _visit_eval(project):
    f = project.fn(T + ".ToastSampler.visit_callback")
    ev = sym.make_evaluator(project, T, [], inline_local=True, no_inline=("toast_tile_get_coords", "_div4", "_create_level1_tiles", "sample_layer",
                                                                           "sample_layer_filtered", "generate_tiles", "generate_tiles_filtered"))
    ev.self_class = T + ".ToastSampler"      # the sampler's own helper methods belong to the callback
    return f, ev, ev.run(f.node)


def _flag_of(r, f):
    """The attribute of the sampler object that decides the row reversal in visit_callback, with the terms around it:
    (flag term or None, sampled term, stored-image term of the clobbering write)."""
    tile = ("sym", f.params()[2])
    coords = ("call", ("sym", "toast_tile_get_coords"), (tile,), ())
    samp = ("call", ("attr", ("sym", "self"), "_sampler"), (("item", coords, 0), ("item", coords, 1)), ())
    flipped = ("sub", samp, ("slice", sym.NONE, sym.NONE, num(-1)))
    writes = [e for e in r.events if e.kind == "call" and e.term[1][0] == "attr" and e.term[1][2] == "write_image"]
    img = writes[0].term[2][1] if writes and len(writes[0].term[2]) > 1 else None
    flag = None
    if img is not None and img[0] == "call" and img[1] == ("attr", ("sym", "Image"), "from_array") and len(img[2]) == 1:
        d = img[2][0]
        if d[0] == "ite" and d[2] == flipped and d[3] == samp:
            flag = d[1]
        elif d[0] == "ite" and d[3] == flipped and d[2] == samp:
            flag = ("op", "not", (d[1],))
    return flag, samp, flipped, img


def project_fn(run, q):
    return run.project.fn(q)


def _r1_r2(run):
    project = run.project
    f, ev, r = _visit_eval(project)
    run.note_func(f)
    pos, tile = ("sym", f.params()[1]), ("sym", f.params()[2])
    coords = ("call", ("sym", "toast_tile_get_coords"), (tile,), ())
    flag, samp, flipped, img = _flag_of(r, f)
    sampler_calls = [e for e in r.events if e.kind == "call" and e.term[1] == ("attr", ("sym", "self"), "_sampler")]
    writes = [e for e in r.events if e.kind == "call" and e.term[1][0] == "attr" and e.term[1][2] == "write_image"]
    updates = [e for e in r.events if e.kind == "call" and e.term[1][0] == "attr" and e.term[1][2] == "update_image"]
    upd_into = [e for e in r.events if e.kind == "call" and e.term[1][0] == "attr" and e.term[1][2] == "update_into_maskable_buffer"]
    problems = []
    if len(sampler_calls) != 1:
        problems.append(("sampler-call", "sampler is called %d times" % len(sampler_calls)))
    else:
        a = sampler_calls[0].term[2]
        if tuple(a) == (("item", coords, 1), ("item", coords, 0)):
            problems.append(("lonlat-swapped", "sampler is called as sampler(lat, lon); the sampler protocol is sampler(lon, lat)"))
        elif tuple(a) != (("item", coords, 0), ("item", coords, 1)):
            if tile not in set().union(*[atoms_of(x) for x in a]) if a else True:
                problems.append(("coords-of-other-tile", "sampler arguments %s are not the pixel coordinates of the callback's own tile" % [show(x)[:60] for x in a]))
            else:
                problems.append(("sampler-args", "sampler arguments are %s, expected the (lon, lat) arrays of toast_tile_get_coords(tile)" % [show(x)[:80] for x in a]))
    if len(writes) != 1 or len(updates) != 1 or len(upd_into) != 1:
        problems.append(("store-shape", "expected one clobbering write_image and one update_image path (writes=%d updates=%d)" % (len(writes), len(updates))))
    else:
        w, u, ui = writes[0], updates[0], upd_into[0]
        clob = ("attr", ("sym", "self"), "_clobber")
        if boolalg.equiv(boolalg.conj(w.pc), clob) is not True or boolalg.equiv(boolalg.conj(u.pc), ("op", "not", (clob,))) is not True:
            problems.append(("mode-branches", "clobbering write / updating read-modify-write are not the two arms of `self._clobber`"))
        if not w.term[2] or w.term[2][0] != pos or not u.term[2] or u.term[2][0] != pos:
            problems.append(("store-position", "the tile is stored at %s / %s, not at the callback's own position" % (
                show(w.term[2][0])[:40] if w.term[2] else "?", show(u.term[2][0])[:40] if u.term[2] else "?")))
        if flag is None:
            s = show(img) if img else "?"
            if img is not None and img[0] == "call" and img[2] and img[2][0] == samp:
                problems.append(("no-row-reversal", "the sampled rows are never reversed: bottom-up (FITS) tiles are stored top-down"))
            elif img is not None and img[0] == "call" and img[2] and img[2][0] == flipped:
                problems.append(("always-reversed", "the sampled rows are always reversed, also for top-down formats"))
            else:
                problems.append(("stored-data", "the image stored is %s; expected Image.from_array(sampler(lon, lat)[::-1] if <reversal flag> else sampler(lon, lat))" % s[:200]))
        elif not (flag[0] == "attr" and flag[1] == ("sym", "self")):
            if flag[0] == "op" and flag[1] == "not" and flag[2][0][0] == "attr" and flag[2][0][1] == ("sym", "self"):
                pass    # negated flag: its truth table is decided by R2b
            else:
                problems.append(("stored-data", "rows are reversed under %s, which is not a flag of the sampler object" % show(flag)[:100]))
        kw = dict(w.term[3])
        if kw.get("format") != ("attr", ("sym", "self"), "_format"):
            problems.append(("write-format", "clobbering write does not pass format=self._format"))
        ukw = dict(u.term[3])
        if ukw.get("default") != ("const", "masked") or "masked_mode" not in ukw:
            problems.append(("update-default", "update path must read missing tiles as masked buffers of the image's mode (default='masked', masked_mode=img.mode)"))
        full = ("call", ("sym", "slice"), (sym.NONE,), ())
        if ui.term[1][1] != img or len(ui.term[2]) != 5 or tuple(ui.term[2][1:]) != (full, full, full, full) \
                or ui.term[2][0] != ("op", "enter", (u.term,)):
            problems.append(("update-call", "update path must merge the whole sampled image into the tile read under the lock: "
                             "img.update_into_maskable_buffer(basis, :, :, :, :)"))
    if problems and not writes and not updates:
        # the callback stores nothing itself: the tile goes to an object / helper that is not followed (a sink, a writer class)
        run.undecided("C06.R1", f, None, "the leaf callback neither writes nor updates a tile in any place the analysis follows (%s): its store is handed to something "
                      "that is not followed" % problems[0][1][:80], kind="store-opaque")
        run.undecided("C06.R2", f, None, "row reversal: the store of the leaf callback is not followed", kind="store-opaque")
    elif problems:
        for kind, msg in problems:
            run.violated("C06.R1" if kind not in ("no-row-reversal", "always-reversed", "reversal-inverted") else "C06.R2", f, None, msg, kind=kind)
    else:
        run.holds("C06.R1", f, None, "store(pos) <- Image.from_array(sampler(*coords(tile))[::-1 if flag]) ; clobber: write_image, else locked update")
        run.holds("C06.R2", f, None, "rows reversed exactly under %s (truth table: R2b)" % show(flag))


_OTHER = "png"


class _Builtin:
    """abstract value of the builtin `format` function: truthy, not a string"""
    def __repr__(self):
        return "<builtin format>"


BUILTIN = _Builtin()


def _r2b_sampler(run):
    """Truth table of ToastSampler._invert_into_tiles."""
    project = run.project
    f = project.fn(T + ".ToastSampler.__init__")
    run.note_func(f)
    ev = sym.make_evaluator(project, T, ["toasty.image.get_format_vertical_parity_sign"], inline_local=True)     # the decision may sit in a module helper
    ev.self_class = T + ".ToastSampler"
    r = ev.run(f.node)
    vf, vev, vr = _visit_eval(project)
    flag = _flag_of(vr, vf)[0]
    negate = False
    if flag is not None and flag[0] == "op" and flag[1] == "not":
        flag, negate = flag[2][0], True
    if flag is None or not (flag[0] == "attr" and flag[1] == ("sym", "self")):
        run.undecided("C06.R2b", f, None, "the flag deciding the row reversal in visit_callback was not identified", kind="no-invert-flag")
        return
    st = [e for e in r.events if e.kind == "store" and e.term[1][0] == flag]
    if not st:
        run.undecided("C06.R2b", f, None, "%s is never assigned by the constructor" % show(flag), kind="no-invert-flag")
        return
    # join of conditional stores: the env value at the end
    term = r.env.get(flag)
    if negate and term is not None:
        term = ("op", "not", (term,))
    fmt_store = r.env.get(("attr", ("sym", "self"), "_format"))
    clob_store = r.env.get(("attr", ("sym", "self"), "_clobber"))
    if term is None or fmt_store != ("sym", "format") or clob_store != ("sym", "clobber"):
        run.undecided("C06.R2b", f, None, "constructor does not store clobber/format/invert as expected", kind="ctor-shape")
        return
    # does the update path write in self._format? (look at visit_callback's update_image call)
    rv = vr
    upd = [e for e in rv.events if e.kind == "call" and e.term[1][0] == "attr" and e.term[1][2] == "update_image"]
    upd_uses_format = bool(upd) and dict(upd[0].term[3]).get("format") == ("attr", ("sym", "self"), "_format")
    pio = ("sym", "pio")

    def hooks_for(default_fmt):
        def h(x, rec):
            if x[0] == "call":
                fn = x[1]
                if fn == ("attr", pio, "get_default_vertical_parity_sign") or fn == ("attr", ("attr", ("sym", "self"), "_pio"), "get_default_vertical_parity_sign"):
                    return 1 if default_fmt == "fits" else -1
                if fn in (("attr", pio, "get_default_format"), ("attr", ("attr", ("sym", "self"), "_pio"), "get_default_format")):
                    return default_fmt
                if fn == ("sym", "get_format_vertical_parity_sign") and x[2]:
                    v = rec(x[2][0])
                    if v is UNKNOWN:
                        return UNKNOWN
                    return 1 if v == "fits" else -1
            if x[0] == "attr" and x[2] == "_default_format" and x[1] in (pio, ("attr", ("sym", "self"), "_pio"), ("sym", "self")):
                return default_fmt
            # any other method of the pyramid I/O object: evaluate its body (bounded depth) for these arguments
            if x[0] == "call" and x[1][0] == "attr" and x[1][1] in (pio, ("attr", ("sym", "self"), "_pio"), ("sym", "self")) and len(_pio_depth) < 3:
                m = project.funcs.get("toasty.pyramid.PyramidIO." + x[1][2])
                if m is not None and m.module.kind == "py":
                    evm = sym.make_evaluator(project, "toasty.pyramid", ["toasty.image.get_format_vertical_parity_sign"], inline_local=True)
                    evm.self_class = "toasty.pyramid.PyramidIO"
                    evm.no_inline = ("get_default_vertical_parity_sign", "get_default_format")
                    try:
                        rm = evm.run(m.node)
                    except Exception:
                        return UNKNOWN
                    from sa import boolalg as _ba
                    body = _ba.fold_returns(rm.returns)
                    if body is None:
                        return UNKNOWN
                    names = m.params()[1:]
                    envm = {}
                    a_ = m.node.args
                    defaults = dict(zip([p_.arg for p_ in a_.args][len(a_.args) - len(a_.defaults):], a_.defaults))
                    given = dict(zip(names, x[2]))
                    given.update({k: v for k, v in x[3] if k != "**"})
                    for nm in names:
                        if nm in given:
                            envm[("sym", nm)] = rec(given[nm])
                        elif nm in defaults and isinstance(defaults[nm], ast.Constant):
                            envm[("sym", nm)] = defaults[nm].value
                        else:
                            return UNKNOWN
                    _pio_depth.append(1)
                    try:
                        return teval(body, envm, [h])
                    finally:
                        _pio_depth.pop()
            return NotImplemented
        return h
    _pio_depth = []
    bad = []
    unk = []
    rows = []
    # which (clobber, format) combinations occur: sample_layer passes (True, user format); sample_layer_filtered
    # passes (False, <whatever expression it passes>); direct users may pass anything
    for clobber, fmt, dflt in itertools.product((True, False), (None, "fits", _OTHER, BUILTIN), ("fits", _OTHER)):
        if fmt is BUILTIN and clobber:
            continue
        env = {("sym", "format"): fmt, ("sym", "clobber"): clobber}
        got = teval(term, env, [hooks_for(dflt)])
        if clobber or upd_uses_format:
            wf = fmt if (fmt is not None and fmt is not BUILTIN) else (dflt if fmt is None else fmt)
            written = wf if fmt is not BUILTIN else BUILTIN
            if fmt is None:
                written = dflt
        else:
            written = dflt
        want = (written == "fits")
        rows.append((clobber, repr(fmt), dflt, repr(got), want))
        if got is UNKNOWN:
            unk.append((clobber, fmt, dflt))
        elif bool(got) != want:
            bad.append((clobber, fmt, dflt, got, want))
    if bad:
        c, fm, d, got, want = bad[0]
        run.violated("C06.R2b", f, st[0].node, "row reversal is decided as %s for clobber=%s, format=%r, pyramid default %r, but the tile is written in "
                     "%s, which needs reversal=%s (%d of %d cases of the truth table disagree)" % (
                         got, c, fm, d, (("format %r" % (fm if fm is not None else d)) if (c or upd_uses_format) else ("the default format %r" % d)), want, len(bad), len(rows)),
                     kind="parity-format-mismatch", cases=[list(map(str, b)) for b in bad[:6]])
    elif unk:
        run.undecided("C06.R2b", f, st[0].node, "row-reversal decision %s cannot be evaluated for %s" % (show(term)[:160], unk[:2]), kind="parity-unevaluable")
    else:
        run.holds("C06.R2b", f, st[0].node, "reversal == (format actually written is 'fits') in all %d cases of clobber x format x default format" % len(rows),
                  table=rows)


def _r3(run):
    project = run.project
    # the two entry points with the module helpers they share spliced in (e.g. one "sample the leaves of this pyramid" helper)
    ev = sym.make_evaluator(project, T, [], inline_local=True, no_inline=("toast_tile_get_coords", "_div4", "_create_level1_tiles", "generate_tiles",
                                                                           "generate_tiles_filtered", "toast_tile_for_point", "toast_pixel_for_point", "create_single_tile"))
    for name, clobber, factory, n_fargs in (("sample_layer", True, "new_toast", 1), ("sample_layer_filtered", False, "new_toast_filtered", 2)):
        f = project.fn("%s.%s" % (T, name))
        run.note_func(f)
        r = ev.run(f.node)
        ctor = [e for e in r.events if e.kind == "call" and e.term[1] == ("sym", "ToastSampler")]
        fac = [e for e in r.events if e.kind == "call" and e.term[1][0] == "attr" and e.term[1][2] == factory]
        vis = [e for e in r.events if e.kind == "call" and e.term[1][0] == "attr" and e.term[1][2] == "visit_leaves"]
        problems = []
        if len(ctor) != 1 or len(fac) != 1 or len(vis) != 1:
            run.undecided("C06.R3", f, None, "%s: expected one pyramid factory call, one ToastSampler and one visit_leaves" % name, kind="sample-shape")
            continue
        g, cb = ev.bound_args(ctor[0].term)
        cb = cb or {}
        if cb.get("pio") != ("sym", "pio") or cb.get("sampler") != ("sym", "sampler"):
            problems.append(("sampler-ctor", "ToastSampler is not constructed from (pio, sampler, ...)"))
        elif cb.get("clobber") != ("const", clobber):
            problems.append(("clobber-mode", "%s constructs its sampler with clobber=%s; it must %s existing tiles (%s)" % (
                name, show(cb.get("clobber")) if cb.get("clobber") is not None else "<default>", "overwrite" if clobber else "update",
                "fresh layer" if clobber else "several filtered passes / chunks share tiles")))
        evq = sym.make_evaluator(project, T, [])
        evq.ctx_module = T
        g2, fb = evq.bound_args(("call", ("attr", ("sym", "self"), factory), fac[0].term[2], fac[0].term[3]))
        if fb is None:
            # Pyramid.<factory>(...) called on the class: bind by the factory's own signature
            pf = project.funcs.get("%s.Pyramid.%s" % (P, factory))
            fb = {}
            if pf is not None:
                ps = [x for x in pf.params() if x not in ("cls", "self")]
                fb = dict(zip(ps, fac[0].term[2]))
                fb.update(dict(fac[0].term[3]))
        if fb.get("depth") != ("sym", "depth"):
            problems.append(("depth", "the pyramid is not built with the requested depth"))
        if n_fargs == 2 and fb.get("tile_filter") != ("sym", "tile_filter"):
            problems.append(("filter", "the tile filter is not handed to the pyramid"))
        if fb.get("coordsys") != ("sym", "coordsys"):
            problems.append(("coordsys", "the requested coordinate system is not handed to the pyramid"))
        va = vis[0].term[2]
        if not (va and va[0] == ("attr", ctor[0].extra if ctor[0].extra is not None else ctor[0].term, "visit_callback")) \
                and not (va and va[0][0] == "attr" and va[0][2] == "visit_callback"):
            problems.append(("callback", "visit_leaves is not given the sampler's visit_callback"))
        if dict(vis[0].term[3]).get("parallel") != ("sym", "parallel"):
            problems.append(("parallel", "the requested parallelism is not forwarded"))
        if problems:
            for kind, msg in problems:
                run.violated("C06.R3", f, ctor[0].node, msg, kind=kind)
        else:
            run.holds("C06.R3", f, ctor[0].node, "%s: pyramid(depth%s, coordsys) + ToastSampler(pio, sampler, %s) + visit_leaves(callback, parallel)" % (
                name, ", filter" if n_fargs == 2 else "", clobber))
    # pyramid factories keep the coordinate system / filter / depth
    evp = sym.make_evaluator(project, P, [])
    for name, fields in (("new_toast", ("depth", "coordsys")), ("new_toast_filtered", ("depth", "coordsys", "tile_filter"))):
        f = project.fn("%s.Pyramid.%s" % (P, name))
        run.note_func(f)
        r = evp.run(f.node)
        ret = r.returns[0][1] if len(r.returns) == 1 else None
        stores = {e.term[1][0][2]: e.term[1][1] for e in r.events if e.kind == "store" and e.term[1][0][0] == "attr" and e.term[1][0][1] == ret}
        # a delegating constructor call: parameters passed on
        deleg = set()
        if ret is not None and ret[0] == "call":
            for x in list(ret[2]) + [v for k, v in ret[3]]:
                deleg |= {a[1] for a in atoms_of(x) if a[0] == "sym"}
        missing = []
        for fld in fields:
            attr = {"depth": "depth", "coordsys": "_coordsys", "tile_filter": "_tile_filter"}[fld]
            v = stores.get(attr)
            used = (v is not None and ("sym", fld) in atoms_of(v)) or fld in deleg
            if not used:
                missing.append(fld)
        if missing:
            run.violated("C06.R3", f, None, "Pyramid.%s ignores its parameter(s) %s: the pyramid it returns does not depend on them (e.g. a planetary "
                         "request silently yields astronomical tiles)" % (name, ", ".join(missing)), kind="factory-drops-" + missing[0])
        elif "coordsys" in fields and stores.get("_coordsys") is not None:
            v = stores["_coordsys"]
            cs = ("sym", "coordsys")
            ok = v == cs or (v[0] == "ite" and v[3] == cs and "ASTRONOMICAL" in show(v[2]) and v[1] == sym.cmp("Is", cs, sym.NONE))
            if ok:
                run.holds("C06.R3", f, None, "Pyramid.%s stores depth/filter and the caller's coordinate system (default ASTRONOMICAL)" % name)
            else:
                run.violated("C06.R3", f, None, "Pyramid.%s stores %s as coordinate system" % (name, show(v)[:100]), kind="factory-coordsys")
        else:
            run.holds("C06.R3", f, None, "Pyramid.%s forwards %s" % (name, ", ".join(fields)))
    # the generator hands depth / coordsys / filter to the TOAST enumeration
    f = common.splice(project, project.fn(P + ".Pyramid._generator"))
    run.note_func(f)
    r = evp.run(f.node)
    gens = [e for e in r.events if e.kind == "call" and e.term[1][0] == "attr" and e.term[1][2] in ("generate_tiles", "generate_tiles_filtered")]
    tf = ("attr", ("sym", "self"), "_tile_filter")

    def accepts_all(t):
        # a module-level function (or lambda) that returns True for every tile
        if t[0] == "sym":
            g_ = project.funcs.get(P + "." + t[1])
            if g_ is not None:
                body_ = [x for x in g_.node.body if not (isinstance(x, ast.Expr) and isinstance(x.value, ast.Constant))]
                return len(body_) == 1 and isinstance(body_[0], ast.Return) and isinstance(body_[0].value, ast.Constant) and body_[0].value.value is True
        if t[0] == "lambda":
            lam = [n_ for n_, _env in r.lambdas if id(n_) == t[2]]
            return bool(lam) and isinstance(lam[0].body, ast.Constant) and lam[0].body.value is True
        return False

    def filter_ok(t):
        if t == tf:
            return True
        # `self._tile_filter` where there is one, an accept-all function otherwise
        if t[0] == "ite" and t[1] in (sym.cmp("Is", tf, sym.NONE),):
            return accepts_all(t[2]) and t[3] == tf
        return False
    # one enumeration per case (unfiltered / filtered), or the filtered one alone with an accept-all stand-in
    okg = len(gens) >= 1 and (len(gens) == 2 or any(e.term[1][2] == "generate_tiles_filtered" for e in gens))
    for e in gens:
        b_ = evp.bound_args(e.term)[1] or {}
        kw = dict(e.term[3])
        depth_a = e.term[2][0] if e.term[2] else kw.get("depth")
        okg = okg and depth_a == ("attr", ("sym", "self"), "depth") and kw.get("coordsys") == ("attr", ("sym", "self"), "_coordsys") \
            and kw.get("bottom_only") == ("const", False)
        if e.term[1][2] == "generate_tiles_filtered":
            flt = e.term[2][1] if len(e.term[2]) > 1 else kw.get("filter")
            okg = okg and flt is not None and filter_ok(flt)
    if okg:
        run.holds("C06.R3", f, None, "TOAST enumeration gets self.depth, self._tile_filter, coordsys=self._coordsys, bottom_only=False")
    elif not gens and c13._delegating_yield_from(project, f):
        x_, g_ = c13._delegating_yield_from(project, f)[0]
        run.undecided("C06.R3", f, x_, "Pyramid._generator delegates to %s with `yield from`: the TOAST enumeration is not followed there" % g_.short, kind="generator-delegated")
    else:
        run.violated("C06.R3", f, gens[0].node if gens else None, "Pyramid._generator does not pass depth / tile filter / coordinate system / bottom_only=False "
                     "to the TOAST tile enumeration", kind="generator-args")


def _r4(run):
    """Nullness: the (Pos(0,0,0), None) item of a TOAST pyramid reaches the leaf callback when depth == 0."""
    project = run.project
    evp = sym.make_evaluator(project, P, [])
    g = common.splice(project, project.fn(P + ".Pyramid._generator"))
    r = evp.run(g.node)
    none_yields = [(pc, t, n) for pc, t, n in r.yields if t[0] == "tuple" and len(t[1]) == 2 and t[1][1] == sym.NONE
                   and any(c[0] == sym.cmp("Is", ("attr", ("sym", "self"), "_coordsys"), sym.NONE) and c[1] is False for c in pc if c[0] != "loop")]
    vc = project.fn(T + ".ToastSampler.visit_callback")
    tile_p = vc.params()[2]
    # is the tile dereferenced without a None guard?
    guarded = False
    for n in own_nodes(vc.node):
        if isinstance(n, ast.If):
            for x in ast.walk(n.test):
                if isinstance(x, ast.Compare) and isinstance(x.left, ast.Name) and x.left.id == tile_p and \
                        any(isinstance(c, ast.Constant) and c.value is None for c in x.comparators):
                    guarded = True
    uses = [c for c in own_calls(vc.node) if any(isinstance(a, ast.Name) and a.id == tile_p for a in c.args)]
    gc = project.fn(T + ".toast_tile_get_coords")
    deref = any(isinstance(n, ast.Attribute) and isinstance(n.value, ast.Name) and n.value.id == gc.params()[0] for n in own_nodes(gc.node))
    # does any entry point exclude depth 0?
    sl = project.fn(T + ".sample_layer")
    excl = any(isinstance(n, ast.If) and "depth" in ast.unparse(n.test) and any(isinstance(y, ast.Raise) for y in ast.walk(n)) for n in own_nodes(sl.node))
    leaf_pass = common.splice(project, project.fn(P + ".Pyramid._visit_leaves_serial"))
    run.note_func(g, vc, gc, sl, leaf_pass)
    if none_yields and uses and deref and not guarded and not excl:
        run.violated("C06.R4", vc, uses[0], "path: Pyramid._generator yields (Pos(0,0,0), None) for a TOAST pyramid -> PyramidReductionIterator.__next__ "
                     "-> leaf callback(pos, tile) when depth == 0 -> ToastSampler.visit_callback -> toast_tile_get_coords(tile) -> tile.corners "
                     "on None: sampling a depth-0 layer (documented as the single whole-sphere tile) raises AttributeError",
                     kind="none-tile-at-depth0")
    elif not none_yields:
        run.holds("C06.R4", vc, None, "no None tile can reach the leaf callback")
    else:
        run.holds("C06.R4", vc, None, "the level-0 None tile is guarded (callback guard=%s, entry excludes depth 0=%s)" % (guarded, excl))


def _r5(run):
    """C03's stage rules applied to the leaf-visit stage."""
    project = run.project
    sub = report.Run("C03", project, run.tier)
    stages = [s for s in common.discover_stages(project) if s.func.qual == P + ".Pyramid._visit_leaves_parallel"]
    if not stages or stages[0].worker is None:
        run.undecided("C06.R5", None, None, "leaf-visit stage not found", kind="no-stage", construct="Pyramid._visit_leaves_parallel")
        return
    st = stages[0]
    run.note_func(st.func, st.worker)
    wq = c03._work_queues(st, project)
    c03._r1_handshake(sub, st, wq)
    c03._r6_join(sub, st)
    c03._r2_r3_producer(sub, st, wq)
    c03._worker_rules(sub, st, wq)
    # "a file for each tile ... regardless of the number of workers": a tile whose sampling failed in a worker must not vanish silently
    # (the handler-swallow rule of C19 on this stage's worker)
    from . import C19 as c19
    sub19 = report.Run("C19", project, run.tier)
    c19._r3_handlers(sub19, st.worker, "worker of " + st.name, c19._worker_get_calls(st))
    for o in sub19.obs:
        if o.verdict != report.HOLDS:
            sub.obs.append(o)
    for o in sub.obs:
        o.rule = "C06.R5"
        o.kind = (o.kind or "") and ("stage:" + o.kind)
        run.obs.append(o)


# ---------------------------------------------------------------------------------------------------------------------
# R8  the command line's projection dispatch (`toasty tile-allsky --projection P`): for every documented projection type
#     the sampler that is built is the documented one, over the loaded image's own array, and the planetary / panorama
#     flags handed to toast_base are the documented ones; depth and parallelism are the user's.
#     Specification: docs/cli/tile-allsky.rst (projection list) and the sampler layouts decided by C11.
CLI = "toasty.cli"
PROJECTIONS = {
    "plate-carree": ("plate_carree_sampler", False, False),
    "plate-carree-galactic": ("plate_carree_galactic_sampler", False, False),
    "plate-carree-ecliptic": ("plate_carree_ecliptic_sampler", False, False),
    "plate-carree-planet": ("plate_carree_planet_sampler", True, False),
    "plate-carree-planet-zeroleft": ("plate_carree_planet_zeroleft_sampler", True, False),
    "plate-carree-planet-zeroright": ("plate_carree_zeroright_sampler", True, False),
    "plate-carree-panorama": ("plate_carree_sampler", False, True),
}


def _truth_const(t):
    if t == sym.TRUE or t == ("const", True):
        return True
    if t == sym.FALSE or t == ("const", False):
        return False
    return None


def _r8_cli(run):
    project = run.project
    if not project.has(CLI + ".tile_allsky_impl"):
        run.undecided("C06.R8", None, None, "toasty.cli.tile_allsky_impl not found (anchor vanished)", kind="anchor", construct="tile_allsky_impl")
        return
    f = project.fn(CLI + ".tile_allsky_impl")
    sp = f.params()[0]
    proj_attr = ("attr", ("sym", sp), "projection")
    for pname, (want_sampler, want_planet, want_pano) in sorted(PROJECTIONS.items()):
        ev = sym.make_evaluator(project, CLI, [], inline_local=True, no_inline=("die",))
        ev.unroll = True
        unknown = []

        def assume(c, pname=pname, unknown=unknown):
            if c[0] == "op" and c[1] in ("cmp:Eq", "cmp:NotEq") and len(c[2]) == 2:
                a, b = c[2]
                if b == proj_attr:
                    a, b = b, a
                if a == proj_attr and b[0] == "const" and isinstance(b[1], str):
                    return (b[1] == pname) == (c[1] == "cmp:Eq")
            if c[0] == "op" and c[1] in ("cmp:In", "cmp:NotIn") and len(c[2]) == 2 and c[2][0] == proj_attr:
                items = c[2][1]
                if items[0] in ("tuple", "list", "set") and all(x[0] == "const" for x in items[1]):
                    return (pname in [x[1] for x in items[1]]) == (c[1] == "cmp:In")
            if proj_attr in atoms_of(c) or sym.contains(c, proj_attr):
                unknown.append(c)
            return None
        ev.assume = assume
        try:
            r = ev.run(f.node, args={})
        except Exception as e:  # evaluator limitation: refuse, do not guess
            run.undecided("C06.R8", f, None, "--projection %s: cannot evaluate tile_allsky_impl (%s)" % (pname, e), kind="eval", construct="tile_allsky_impl:" + pname)
            continue
        tb = [e for e in r.events if e.kind == "call" and e.term[1][0] == "attr" and e.term[1][2] == "toast_base"]
        facts = dict(projection=pname)
        cons = "tile_allsky_impl:" + pname
        if len(tb) != 1 or tb[0].pc:
            if unknown or tb:
                run.undecided("C06.R8", f, None, "--projection %s: the call of toast_base is not reached unconditionally under this projection type (%d call(s), "
                              "condition %s)" % (pname, len(tb), "; ".join(show(c)[:60] for c in (tb[0].pc if tb else unknown))[:200]), kind="dispatch", construct=cons, **facts)
            else:
                run.violated("C06.R8", f, None, "--projection %s (documented in docs/cli/tile-allsky.rst) never reaches Builder.toast_base: the projection type is "
                             "not handled" % pname, kind="projection-unhandled", construct=cons, **facts)
            continue
        call = tb[0].term
        node = tb[0].node
        b = _bind_toast_base(project, call)
        if b is None:
            run.undecided("C06.R8", f, node, "--projection %s: cannot bind the arguments of toast_base" % pname, kind="binding", construct=cons, **facts)
            continue
        s = b.get("sampler")
        ok = True
        if s is None or s[0] == "ite" or unknown:
            run.undecided("C06.R8", f, node, "--projection %s: the sampler handed to toast_base is not decided by the projection type alone: %s" % (
                pname, show(s)[:120] if s else "missing"), kind="sampler", construct=cons, **facts)
            continue
        if not (s[0] == "call" and s[1][0] == "sym"):
            run.undecided("C06.R8", f, node, "--projection %s: sampler %s is not a direct call of a sampler factory" % (pname, show(s)[:120]), kind="sampler", construct=cons, **facts)
            continue
        got = s[1][1]
        if got != want_sampler:
            if project.has("toasty.samplers." + got) and got in _C11_LAYOUTS():
                run.violated("C06.R8", f, node, "--projection %s builds %s; the documented layout of this projection type is that of %s" % (pname, got, want_sampler),
                             kind="wrong-sampler", construct=cons, **facts)
            else:
                run.undecided("C06.R8", f, node, "--projection %s builds its sampler with %s, which is not one of the plate-carree factories" % (pname, got), kind="sampler", construct=cons, **facts)
            ok = False
        # the sampler reads the loaded image's array, nothing derived from it
        arr = s[2][0] if s[2] else (dict(s[3]).get("data") if len(s) > 3 else None)
        if arr is None or not (arr[0] == "call" and arr[1][0] == "attr" and arr[1][2] == "asarray" and not arr[2]):
            run.undecided("C06.R8", f, node, "--projection %s: the sampler's data %s is not <loaded image>.asarray()" % (pname, show(arr)[:100] if arr else "missing"),
                          kind="sampler-data", construct=cons, **facts)
            ok = False
        for key, want in (("is_planet", want_planet), ("is_pano", want_pano)):
            v = b.get(key, sym.FALSE)
            tv = _truth_const(v)
            if tv is None:
                run.undecided("C06.R8", f, node, "--projection %s: %s = %s is not a constant under this projection type" % (pname, key, show(v)[:80]), kind="flag", construct=cons, **facts)
                ok = False
            elif tv != want:
                what = ("the tiles are laid out in the %s TOAST coordinate system while the sampler uses the %s longitude convention" % (
                    ("planetary", "sky") if tv else ("astronomical", "planetary"))) if key == "is_planet" else "the data set is published as the wrong type"
                run.violated("C06.R8", f, node, "--projection %s hands toast_base %s=%s (documented: %s): %s" % (pname, key, tv, want, what), kind="wrong-" + key, construct=cons, **facts)
                ok = False
        # depth / parallelism are the user's own
        d = b.get("depth")
        if d is not None and d != ("attr", ("sym", sp), "depth"):
            try:
                off = sym.sub(d, ("attr", ("sym", sp), "depth"))
            except Exception:
                off = None
            if sym.is_num(d) or ("attr", ("sym", sp), "depth") not in atoms_of(d) or (off is not None and sym.is_num(off) and num_value(off) != 0):
                run.violated("C06.R8", f, node, "--projection %s: toast_base is handed depth %s instead of the requested depth" % (pname, show(d)[:60]), kind="depth", construct=cons, **facts)
            else:
                run.undecided("C06.R8", f, node, "--projection %s: depth handed on as %s" % (pname, show(d)[:60]), kind="depth", construct=cons, **facts)
            ok = False
        if ok:
            run.holds("C06.R8", f, node, "--projection %s: %s(<image>.asarray()), is_planet=%s, is_pano=%s, depth=settings.depth reach toast_base" % (
                pname, want_sampler, want_planet, want_pano), **facts)
    # an unrecognised projection type is refused, never tiled with some default sampler
    ev = sym.make_evaluator(project, CLI, [], inline_local=True, no_inline=("die",))
    ev.unroll = True

    def assume_none(c):
        if c[0] == "op" and c[1] in ("cmp:Eq", "cmp:NotEq") and len(c[2]) == 2 and proj_attr in c[2]:
            other = c[2][0] if c[2][1] == proj_attr else c[2][1]
            if other[0] == "const" and isinstance(other[1], str):
                return c[1] == "cmp:NotEq"
        if c[0] == "op" and c[1] in ("cmp:In", "cmp:NotIn") and len(c[2]) == 2 and c[2][0] == proj_attr and c[2][1][0] in ("tuple", "list", "set"):
            return c[1] == "cmp:NotIn"
        return None
    ev.assume = assume_none
    try:
        r = ev.run(f.node, args={})
        tb = [e for e in r.events if e.kind == "call" and e.term[1][0] == "attr" and e.term[1][2] == "toast_base"]
        stops = [e for e in r.events if (e.kind == "raise") or (e.kind == "call" and e.term[1] in (("sym", "die"),) and not e.pc)]
        if tb and not stops:
            run.violated("C06.R8", f, tb[0].node, "an unrecognised --projection value is tiled (toast_base is reached) instead of being refused", kind="unknown-projection-tiled",
                         construct="tile_allsky_impl:<other>")
        elif stops:
            run.holds("C06.R8", f, stops[0].node, "an unrecognised --projection value is refused (%s) before any tiling" % show(stops[0].term)[:40])
        else:
            run.undecided("C06.R8", f, None, "cannot tell what happens for an unrecognised --projection value", kind="unknown-projection", construct="tile_allsky_impl:<other>")
    except Exception as e:
        run.undecided("C06.R8", f, None, "cannot evaluate tile_allsky_impl for an unrecognised projection (%s)" % e, kind="eval", construct="tile_allsky_impl:<other>")


def _C11_LAYOUTS():
    from . import C11 as c11
    return c11.LAYOUT


def _bind_toast_base(project, call):
    """Parameter binding of a `<builder>.toast_base(...)` call term against Builder.toast_base."""
    q = "toasty.builder.Builder.toast_base"
    if not project.has(q):
        return None
    params = [p for p in project.fn(q).params() if p != "self"]
    a = project.fn(q).node.args
    named = [x.arg for x in a.posonlyargs + a.args + a.kwonlyargs if x.arg != "self"]
    out = {}
    pos = call[2]
    if len(pos) > len(named):
        return None
    for k, v in zip(named, pos):
        out[k] = v
    for k, v in call[3]:
        if k is None:
            return None
        out[k] = v
    return out


# ---------------------------------------------------------------------------------------------------------------------
# R9  Builder.toast_base: "the requested coordinate system".  The layer is sampled in the caller's explicit `coordsys` when
#     one is given and otherwise in PLANETARY exactly when is_planet; sampler, depth and the builder's own pyramid I/O
#     object reach sample_layer / sample_layer_filtered; the published data-set type is PLANET exactly when is_planet
#     (WWT renders a PLANET data set with the planetary TOAST convention: a mismatch mirrors the map).
BLD = "toasty.builder"


def _r9_toast_base(run):
    project = run.project
    q = BLD + ".Builder.toast_base"
    if not project.has(q):
        run.undecided("C06.R9", None, None, "Builder.toast_base not found (anchor vanished)", kind="anchor", construct="Builder.toast_base")
        return
    f = project.fn(q)
    params = f.params()
    want = {True: "PLANETARY", False: "ASTRONOMICAL"}
    for planet in (True, False):
        for pano in ((False,) if planet else (True, False)):
            ev = sym.make_evaluator(project, BLD, [], inline_local=True, no_inline=("sample_layer", "sample_layer_filtered"))
            ev.self_class = BLD + ".Builder"
            ev.no_inline |= {"_check_no_wcs_yet"}

            def assume(c, planet=planet, pano=pano):
                if c == ("sym", "is_planet"):
                    return planet
                if c == ("sym", "is_pano"):
                    return pano
                return None
            ev.assume = assume
            r = ev.run(f.node)
            cons = "Builder.toast_base:is_planet=%s" % planet
            calls = [e for e in r.events if e.kind == "call" and e.term[1] in (("sym", "sample_layer"), ("sym", "sample_layer_filtered"))]
            if not calls:
                run.undecided("C06.R9", f, None, "toast_base (is_planet=%s) reaches neither sample_layer nor sample_layer_filtered" % planet, kind="no-sampling", construct=cons)
                continue
            popped = [e for e in r.events if e.kind == "call" and e.term[1][0] == "attr" and e.term[1][2] in ("pop", "get") and e.term[1][1] == ("sym", "kwargs")
                      and e.term[2] and e.term[2][0] == ("const", "coordsys")]
            for e in calls:
                callee = e.term[1][1]
                tq = T + "." + callee
                b = _bind_fn(project, tq, e.term)
                if b is None:
                    run.undecided("C06.R9", f, e.node, "cannot bind the arguments of %s in toast_base" % callee, kind="binding", construct=cons + ":" + callee)
                    continue
                cs = b.get("coordsys")
                star = any(k is None or k == "**" for k, _ in e.term[3])
                ok = True
                if cs is None:
                    if star and not popped:
                        # the caller's own coordsys travels inside **kwargs; without one the callee's default applies
                        run.undecided("C06.R9", f, e.node, "toast_base (is_planet=%s): %s gets no coordsys of its own; the callee's default decides" % (planet, callee),
                                      kind="coordsys-default", construct=cons + ":" + callee)
                    else:
                        run.violated("C06.R9", f, e.node, "toast_base (is_planet=%s) calls %s without a coordinate system: the layer is sampled in the callee's default "
                                     "system whatever was requested" % (planet, callee), kind="coordsys-dropped", construct=cons + ":" + callee)
                    continue
                default = cs
                explicit = False
                if cs[0] == "call" and cs[1][0] == "attr" and cs[1][2] in ("pop", "get") and cs[1][1] == ("sym", "kwargs") and cs[2] and cs[2][0] == ("const", "coordsys"):
                    explicit = True
                    default = cs[2][1] if len(cs[2]) > 1 else sym.NONE
                if not explicit and popped:
                    run.violated("C06.R9", f, e.node, "toast_base (is_planet=%s): the caller's explicit coordsys is taken out of the keyword arguments and %s is handed %s "
                                 "instead" % (planet, callee, show(cs)[:60]), kind="explicit-coordsys-ignored", construct=cons + ":" + callee)
                    ok = False
                if default[0] == "attr" and default[2] in ("PLANETARY", "ASTRONOMICAL") and show(default[1]).endswith("ToastCoordinateSystem"):
                    if default[2] != want[planet]:
                        run.violated("C06.R9", f, e.node, "toast_base with is_planet=%s samples the layer in the %s system (%s): the tile grid is rotated by 180 degrees "
                                     "against the sampler's longitude convention" % (planet, default[2], callee), kind="coordsys-of-flag", construct=cons + ":" + callee)
                        ok = False
                else:
                    run.undecided("C06.R9", f, e.node, "toast_base (is_planet=%s): coordinate system %s handed to %s is not one of the two members" % (planet, show(default)[:80], callee),
                                  kind="coordsys-term", construct=cons + ":" + callee)
                    ok = False
                for key, wantv in (("sampler", ("sym", "sampler")), ("depth", ("sym", "depth")), ("pio", ("attr", ("sym", "self"), "pio"))):
                    v = b.get(key)
                    if v is None and star:
                        continue
                    if v != wantv:
                        if v is not None and (sym.is_num(v) or not (set(atoms_of(v)) & set(atoms_of(wantv)))):
                            run.violated("C06.R9", f, e.node, "toast_base hands %s %s=%s instead of its own %s" % (callee, key, show(v)[:60], show(wantv)), kind="forward-" + key,
                                         construct=cons + ":" + callee)
                        else:
                            run.undecided("C06.R9", f, e.node, "toast_base hands %s %s=%s" % (callee, key, show(v)[:60] if v else "nothing"), kind="forward-" + key, construct=cons + ":" + callee)
                        ok = False
                if ok:
                    run.holds("C06.R9", f, e.node, "toast_base (is_planet=%s, is_pano=%s) -> %s(coordsys = explicit or %s; own sampler / depth / pio)" % (planet, pano, callee, want[planet]))
            # published data-set type
            st = [e for e in r.events if e.kind == "store" and e.term[0] == "tuple" and e.term[1][0][0] == "attr" and e.term[1][0][2] == "data_set_type"]
            want_t = "PLANET" if planet else ("PANORAMA" if pano else "SKY")
            got = [e for e in st if not e.pc]
            if len(got) == 1 and got[0].term[1][1][0] == "attr":
                name = got[0].term[1][1][2]
                if name == want_t:
                    run.holds("C06.R9", f, got[0].node, "toast_base (is_planet=%s, is_pano=%s) publishes data-set type %s" % (planet, pano, name))
                else:
                    run.violated("C06.R9", f, got[0].node, "toast_base with is_planet=%s, is_pano=%s publishes data-set type %s (expected %s): the viewer applies the other "
                                 "longitude convention to the tiles" % (planet, pano, name, want_t), kind="dataset-type", construct=cons + ":data_set_type")
            else:
                run.undecided("C06.R9", f, None, "toast_base (is_planet=%s, is_pano=%s): data-set type not decided by the two flags (%d store(s))" % (planet, pano, len(st)),
                              kind="dataset-type", construct=cons + ":data_set_type")


def _bind_fn(project, q, call):
    if not project.has(q):
        return None
    a = project.fn(q).node.args
    named = [x.arg for x in a.posonlyargs + a.args]
    kwonly = [x.arg for x in a.kwonlyargs]
    out = {}
    if len(call[2]) > len(named):
        return None
    for k, v in zip(named, call[2]):
        out[k] = v
    for k, v in call[3]:
        if k in (None, "**"):
            continue
        if k not in named and k not in kwonly and not a.kwarg:
            return None
        out[k] = v
    return out
