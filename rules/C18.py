"""C18 - Publishing is crash-safe: index.wtml reaches the store only after all else.

R1 sentinel last: between the directory listing and the upload loop the list is reordered by a recognised
   multiset-preserving move-to-end idiom that establishes last(L) == 'index.wtml' whenever it is present
R2 the upload loop iterates that list in order and uploads every element, unconditionally (no skipping)
R3 no upload error is swallowed: neither around put_item in publish nor inside any store's put_item
R4 the move to published/ happens after the loop has finished, not inside it and not in a finally
R5 the same sentinel constant is what publish saves for last, what refresh tests and what approve writes
R6 the local store writes exactly the path made of the given components, truncating/overwriting
"""
import ast

from sa import sym
from sa.sym import show, num, num_value, atoms_of
from sa.cfg import CFG, enclosing_stmts
from sa.model import dotted, own_calls, own_nodes, callee_attr, inline_helpers
from . import common

PIPE = "toasty.pipeline"
SENTINEL = "index.wtml"

EXPLANATION = (
    "publish is analysed on its CFG and with the term evaluator. The reordering between os.listdir and the upload loop "
    "must be one of the enumerated multiset-preserving idioms (swap of the sentinel's slot with the last slot under "
    "index()/ValueError, remove+append, stable sort whose key is true exactly for the sentinel) so that the sentinel is "
    "the last element whenever present; the loop must iterate that very list in order, upload each element with "
    "put_item(uniq_id, filename) on every iteration without any skip or swallowing handler, and the rename to published/ "
    "must be reachable only through the loop's normal exit. Store implementations of put_item must not catch errors "
    "without re-raising. Then for every listing order and every crash/failure point before the last transfer, the store "
    "holds no index.wtml and the image is still in approved/, so re-running publish re-sends everything."
)

MANIFEST = {
    "technique": "static analysis: reorder recognition on canonical terms (swap / remove+append / stable sort forms) with helpers spliced into the caller, CFG ordering/must-pass-through (sentinel last, rename after loop), handler-swallow analysis across store implementations, constant agreement across modules; must-pass-through of the transfer in every put_item; discarded concurrent.futures results; error-swallowing transfer helpers used where the caller cannot stop (comprehension / map / discarded result); position-or-None search helpers and the truthiness trap of position 0; every marker that lets refresh pass over a candidate is the sentinel or an independently stored flag file; who-may-call rule: only publish() (or helpers reached from it alone) moves a directory under published/",
    "text": "Decides on all paths the ordering and error-propagation premises under which a crash or failed transfer at any point leaves no index.wtml in the store for an incompletely transferred image and keeps it in approved/.",
    "note": "Trusted: os.listdir returns each name once in arbitrary order; os.rename atomic; open(path,'wb') truncates; a store's single put is not itself atomic (the property only orders the sentinel after all other files).",
}


def run(run):
    run.explanation = EXPLANATION
    run.assumptions += ["os.listdir: arbitrary order, no duplicates", "os.rename is atomic within one filesystem"]
    for r, n in (("C18.R1", 1), ("C18.R2", 1), ("C18.R3", 3), ("C18.R4", 1), ("C18.R5", 2), ("C18.R6", 1), ("C18.R7", 1)):
        run.floor(r, n)
    project = run.project
    f = project.fn(PIPE + ".PipelineManager.publish")
    run.note_func(f)
    # transfers handed to an executor: their failures must come back to publish
    pipe_funcs = [g_ for g_ in project.py_funcs() if g_.module.name.startswith(PIPE)]
    n_exec = common.check_discarded_futures(run, "C18.R3", pipe_funcs, "a failed transfer looks like success, index.wtml is sent and the image is moved to published/")
    if not common.discarded_futures_selfcheck():
        run.undecided("C18.R3", None, None, "discarded-futures rule self-check failed", kind="selfcheck", construct="<futures selfcheck>")
    _r7_who_files_published(run, pipe_funcs)
    if _swallowing_helpers(run, f):
        return
    if _falsy_position_tests(run, pipe_funcs):
        return
    # procedure-like helpers of the manager (e.g. "upload one approved image") are spliced into publish
    f = inline_helpers(project, f, lambda owner, call: common.resolve_callee(project, owner, call))
    ev = sym.make_evaluator(project, PIPE, [])
    r = ev.run(f.node)
    cfg = CFG(f.node)
    # the upload loop: the loop containing put_item
    puts = [e for e in r.events if e.kind == "call" and e.term[1][0] == "attr" and e.term[1][2] == "put_item"]
    if len(puts) != 1:
        run.undecided("C18.R2", f, None, "publish has %d put_item calls" % len(puts), kind="put-count")
        return
    put = puts[0]
    loop_ks = [c[1] for c in put.pc if c[0] == "loop"]
    if len(loop_ks) < 2:
        run.undecided("C18.R2", f, put.node, "put_item is not inside (image loop, file loop)", kind="loop-nesting")
        return
    kfile = loop_ks[-1]
    it_file, lnode = [(it, n) for k, it, n in r.loops if k == kfile][0]
    kimg = loop_ks[-2]
    it_img, inode = [(it, n) for k, it, n in r.loops if k == kimg][0]
    uniq = ("elem", it_img)
    # ---- R1: what is the list iterated, and how was it reordered?
    _r1(run, f, r, cfg, it_file, lnode, inode)
    # ---- R2
    problems = []
    fname = ("elem", it_file)
    a = put.term[2]
    if tuple(a) != (uniq, fname):
        # sub_components[1:] = [uniq_id, filename]
        flat = []
        for x in a:
            if x[0] == "star":
                flat.append(x)
            else:
                flat.append(x)
        ok_star = len(a) == 1 and a[0][0] == "star" and a[0][1][0] == "sub" and a[0][1][1][0] == "list" and tuple(a[0][1][1][1][1:]) == (uniq, fname) \
            and a[0][1][2] == ("slice", num(1), sym.NONE, sym.NONE)
        if not ok_star:
            problems.append(("put-args", "put_item is called with %s; expected the item path (uniq_id, filename)" % [show(x)[:50] for x in a]))
    conds = [c for c in put.pc if c[0] != "loop"]
    if conds:
        problems.append(("conditional-upload", "a file is uploaded only under %s" % [("" if p else "not ") + show(c)[:70] for c, p in conds]))
    skips = [n for n in ast.walk(lnode) if isinstance(n, (ast.Continue, ast.Break)) and _innermost_loop(f.node, n) is lnode]
    if skips:
        s0 = skips[0]
        cond = [ast.unparse(s.test)[:80] for s, b in enclosing_stmts(f.node, s0) if isinstance(s, ast.If) and any(x is s for x in ast.walk(lnode))]
        problems.append(("upload-skipped", "the upload loop skips files (%s at line %d under %s): a file left truncated in the store by an interrupted earlier "
                         "attempt is never re-sent, yet index.wtml follows and the image is moved to published/" % (type(s0).__name__.lower(), s0.lineno, cond)))
    src = dict(put.term[3]).get("source")
    opens = [e for e in r.events if e.kind == "with" and e.term[0] == "call" and e.term[1] == ("sym", "open") and ("loop", kfile) in e.pc]
    if not opens or src != ("op", "enter", (opens[0].term,)):
        problems.append(("put-source", "the uploaded stream is not the file opened for this loop element"))
    else:
        path_t = opens[0].term[2][0]
        want_p = ("call", ("attr", ("attr", ("sym", "os"), "path"), "join"), (), ())
        if not (uniq in atoms_of(path_t) and fname in atoms_of(path_t)):
            problems.append(("put-file", "the file opened for upload is %s, not approved/<uniq_id>/<filename>" % show(path_t)[:80]))
    if isinstance(lnode.iter, ast.Call):
        problems.append(("loop-order", "the upload loop iterates %s instead of the reordered list itself" % ast.unparse(lnode.iter)[:60]))
    if problems:
        for kind, msg in problems:
            run.violated("C18.R2", f, put.node, msg, kind=kind)
    else:
        run.holds("C18.R2", f, put.node, "for filename in <list>: put_item(uniq_id, filename, source=open(...)) on every iteration, no skip")
    # ---- R3 swallowing handlers
    _r3(run, f, cfg, put)
    # ---- R4 rename
    ren = [(n, c) for n in cfg.nodes for c in cfg.calls_at(n) if dotted(c.func) in ("os.rename", "os.replace", "shutil.move")]
    lh = cfg.node_of_stmt(lnode)
    if len(ren) != 1:
        run.violated("C18.R4", f, None, "publish has %d rename/move calls (the image must be moved to published/ exactly once, after its uploads)" % len(ren), kind="rename-count")
    else:
        rn, rc = ren[0]
        inside = any(x is rn.ast for x in ast.walk(lnode))
        in_finally = any(isinstance(s, ast.Try) and b == "finalbody" for s, b in enclosing_stmts(f.node, rn.ast))
        in_handler = any(b == "handler" for s, b in enclosing_stmts(f.node, rn.ast))
        early = rn.id in cfg.reachable(cfg.entry.id, avoid={lh.id})
        same_image = any(x is rn.ast for x in ast.walk(inode))
        re_ = [e for e in r.events if e.kind == "call" and e.node is rc]
        args_ok = bool(re_) and len(re_[0].term[2]) == 2 and uniq in atoms_of(re_[0].term[2][0]) and uniq in atoms_of(re_[0].term[2][1]) \
            and "approved" in show(re_[0].term[2][0]) and "published" in show(re_[0].term[2][1])
        if inside:
            run.violated("C18.R4", f, rc, "the image is moved to published/ inside the upload loop: after the first transfer it is gone from approved/ and a failure "
                         "leaves it half published and never retried", kind="rename-in-loop")
        elif in_finally or in_handler:
            run.violated("C18.R4", f, rc, "the image is moved to published/ in a %s clause, i.e. also when a transfer failed" % ("finally" if in_finally else "except"),
                         kind="rename-on-failure")
        elif early or not same_image:
            run.violated("C18.R4", f, rc, "the move to published/ is reachable without having gone through the upload loop of that image", kind="rename-before-uploads")
        elif not args_ok:
            run.violated("C18.R4", f, rc, "rename arguments are not approved/<uniq_id> -> published/<uniq_id>", kind="rename-args")
        else:
            run.holds("C18.R4", f, rc, "approved/<id> -> published/<id> only after the upload loop of that image completed normally")
    # ---- R5 constants
    _r5(run)
    _r6(run)


def _falsy_position_tests(run, funcs):
    """`pos = find(names, 'index.wtml')` with find() = "position, or None when absent", followed by a test of the *truth value*
    of pos (`if pos:`, `if not pos:`, `pos and ..`): position 0 is falsy, so a list that starts with the wanted name is treated as
    one that does not contain it.  In the upload ordering this means index.wtml stays first when the directory lists it first."""
    project = run.project
    found = False
    for g in funcs:
        for a in own_nodes(g.node):
            if not (isinstance(a, ast.Assign) and len(a.targets) == 1 and isinstance(a.targets[0], ast.Name) and isinstance(a.value, ast.Call)):
                continue
            h = common.resolve_callee(project, g, a.value)
            if h is None or not _is_index_or_none(project, h):
                continue
            v = a.targets[0].id
            for t in own_nodes(g.node):
                test = t.test if isinstance(t, (ast.If, ast.While, ast.IfExp)) else None
                if test is None:
                    continue
                parts = [test] + (list(test.values) if isinstance(test, ast.BoolOp) else [])
                parts = [p_.operand if isinstance(p_, ast.UnaryOp) and isinstance(p_.op, ast.Not) else p_ for p_ in parts]
                if any(isinstance(p_, ast.Name) and p_.id == v for p_ in parts):
                    sentinel_here = any(isinstance(x, ast.Constant) and x.value == SENTINEL for x in ast.walk(g.node)) or \
                        any(isinstance(d_, ast.Constant) and d_.value == SENTINEL for d_ in g.node.args.defaults + [x for x in g.node.args.kw_defaults if x is not None]) or \
                        any(isinstance(x, ast.Name) and x.id.isupper() for x in ast.walk(g.node))
                    run.note_func(g, h)
                    run.violated("C18.R1", g, t, "%s tests the truth value of `%s`, the position returned by %s (None when absent): position 0 is falsy, so when the "
                                 "directory listing starts with the looked-for name it is treated as absent%s" % (
                                     g.short, v, h.short, " -- 'index.wtml' is then not moved to the end and is uploaded first" if sentinel_here else ""),
                                 kind="position-truthiness")
                    found = True
    return found


def _swallowing_helpers(run, publish):
    """A helper between publish and put_item that catches the transfer's error and returns normally turns the failure into a
    value.  That is a definite violation where the caller cannot stop on that value: the call sits in a comprehension / map
    (every element is evaluated, index.wtml included) or its value is thrown away.  Other uses are left to the structural rules."""
    project = run.project
    found = False
    seen = {publish.qual}
    todo = [publish]
    while todo:
        caller = todo.pop()
        for c in own_calls(caller.node):
            h = common.resolve_callee(project, caller, c)
            if h is None or h.qual in seen or not h.module.name.startswith(PIPE):
                continue
            seen.add(h.qual)
            todo.append(h)
            swallow = None
            for p_ in own_calls(h.node):
                if callee_attr(p_) != "put_item":
                    continue
                for s_ in [n for n in own_nodes(h.node) if isinstance(n, ast.Try)]:
                    if any(x is p_ for b in s_.body for x in ast.walk(b)):
                        for hd in s_.handlers:
                            if (common.handler_catches_class(hd, "OSError") or common.handler_catches_class(hd, "Exception")) \
                                    and not any(isinstance(y, ast.Raise) for x in hd.body for y in ast.walk(x)):
                                swallow = hd
            if swallow is None:
                continue
            run.note_func(h)
            # how is the helper's call used in the caller?
            in_comp = [n for n in own_nodes(caller.node) if isinstance(n, (ast.ListComp, ast.GeneratorExp, ast.SetComp, ast.DictComp)) and any(x is c for x in ast.walk(n))]
            in_map = [n for n in own_calls(caller.node) if isinstance(n.func, ast.Name) and n.func.id == "map" and n.args and isinstance(n.args[0], (ast.Name, ast.Attribute))
                      and (dotted(n.args[0]) or "").split(".")[-1] == h.name]
            discarded = [n for n in own_nodes(caller.node) if isinstance(n, ast.Expr) and n.value is c]
            if in_comp or in_map or discarded:
                how = "inside a comprehension (every element is evaluated)" if in_comp else ("through map()" if in_map else "and its result is discarded")
                run.violated("C18.R3", h, swallow, "%s catches the transfer's error at line %d and returns normally; %s calls it %s, so after a failed transfer the remaining "
                             "files of the image -- finally index.wtml -- are still sent: the store gets an index.wtml next to a missing or incomplete file" % (
                                 h.short, swallow.lineno, caller.short, how), kind="upload-error-swallowed")
                found = True
    return found


def _innermost_loop(fnode, target):
    loops = [s for s, b in enclosing_stmts(fnode, target) if isinstance(s, (ast.For, ast.While))]
    return loops[-1] if loops else None


def _r1(run, f, r, cfg, it_file, lnode, inode):
    """Recognise the reorder idiom applied to the iterated list."""
    # the list object
    L = it_file
    listing = None
    if L[0] == "new":
        listing = L[2]
        Lname = L[1]
    elif L[0] == "call":
        listing = L
        Lname = lnode.iter.id if isinstance(lnode.iter, ast.Name) else None
    else:
        Lname = lnode.iter.id if isinstance(lnode.iter, ast.Name) else None
    # the evaluator keeps `filenames = os.listdir(...)` as a call term (listdir is not an allocator): find stores on it
    sentinel = ("const", SENTINEL)
    stores = [e for e in r.events if e.kind == "store" and e.term[1][0][0] == "sub" and e.term[1][0][1] == L]
    calls_on = [e for e in r.events if e.kind == "call" and e.term[1][0] == "attr" and e.term[1][1] == L]
    def is_listing(t):
        # the directory listing itself, or a plain copy of it (list(..) / tuple(..) keep order and content)
        if t[0] == "new":
            return "listdir" in show(t) and is_listing(t[2]) if t[2][0] == "call" else "listdir" in show(t)
        if t[0] == "call" and t[1][0] == "sym" and t[1][1] in ("list", "tuple") and len(t[2]) == 1 and not t[3]:
            return is_listing(t[2][0])
        return show(t).startswith("os.listdir(")
    if not is_listing(L):
        # sorted(...) / reversed(...) / list(set(...)) wrappers around the listing
        s = show(L)
        unf = common.unfollowed_project_calls(run.project, L)
        if unf:
            run.undecided("C18.R1", f, lnode, "the upload order is computed by %s, which is not followed: cannot tell where index.wtml ends up" % show(unf[0][1])[:60],
                          kind="order-helper")
        elif "listdir" in s:
            run.violated("C18.R1", f, lnode, "the upload order is %s: the listing is re-ordered after (or instead of) moving index.wtml to the end" % s[:80], kind="order-rewrapped")
        else:
            run.undecided("C18.R1", f, lnode, "the uploaded list %s is not the directory listing" % s[:80], kind="list-source")
        return
    idiom = None
    detail = ""
    # (a) swap idiom
    idx_call = ("call", ("attr", L, "index"), (sentinel,), ())
    last_forms = (num(-1), sym.sub(("call", ("sym", "len"), (L,), ()), num(1)))

    def slot(e):
        lv = e.term[1][0]
        return lv[2] if lv[0] == "sub" else num(lv[2])

    def is_last(t):
        return t in last_forms

    def is_sentinel_value(v):
        # the sentinel itself, or the element found at its position
        return v == sentinel or v == ("sub", L, idx_call)
    # "position of the sentinel, or None": a project helper `def find(items, wanted): try: return items.index(wanted) / except ValueError: return None`
    pos_or_none = None
    for e in r.events:
        if e.kind == "call" and e.term[1][0] == "sym" and len(e.term[2]) == 2 and e.term[2][0] == L and e.term[2][1] == sentinel and not e.term[3]:
            h = common.resolve_callee(project_of(run), f, e.node) if isinstance(e.node, ast.Call) else None
            if h is None:
                for c_ in own_calls(f.node):
                    if isinstance(c_.func, ast.Name) and c_.func.id == e.term[1][1]:
                        h = common.resolve_callee(project_of(run), f, c_)
            if h is not None and _is_index_or_none(project_of(run), h):
                pos_or_none = e.term
    if pos_or_none is not None:
        idx_forms = (idx_call, pos_or_none)
    else:
        idx_forms = (idx_call,)

    def is_sentinel_value(v):          # noqa: F811 -- the element found at the sentinel's position, however that position was obtained
        return v == sentinel or any(v == ("sub", L, i_) for i_ in idx_forms)
    st_last = [e for e in stores if is_last(slot(e))]
    st_idx = [e for e in stores if slot(e) in idx_forms]
    if st_last or st_idx:
        ok = len(st_last) == 1 and len(st_idx) == 1 and is_sentinel_value(st_last[0].term[1][1]) \
            and st_idx[0].term[1][1][0] == "sub" and st_idx[0].term[1][1][1] == L and is_last(st_idx[0].term[1][1][2])
        definite = None
        if ok:
            # both stores on the path where the sentinel is present (else-branch of the try / `if sentinel in L` / `pos is not None`)
            pcs = [c for c in st_last[0].pc if c[0] != "loop"]
            in_handler = any(c[0][0] == "op" and c[0][1] == "except" and c[1] for c in pcs)
            other = [c for c in pcs if not (c[0][0] == "op" and c[0][1] == "except")]
            present = [(("op", "cmp:In", (sentinel, L)), True)]
            if pos_or_none is not None:
                present += [(sym.cmp("Is", pos_or_none, sym.NONE), False), (sym.cmp("Eq", pos_or_none, sym.NONE), False)]
            guard_ok = all(c in present for c in other)
            if pos_or_none is not None and any(c == (pos_or_none, True) for c in other):
                definite = ("the swap is guarded by the truth value of the position found (`if %s:`): position 0 is falsy, so when the operating system lists "
                            "'index.wtml' first it stays first and is uploaded before every other file" % show(pos_or_none).split("(")[0])
            if pos_or_none is not None and slot(st_idx[0]) == pos_or_none and not other:
                definite = "the swap uses the position found without testing it for None: a listing without 'index.wtml' fails"
            ok = not in_handler and guard_ok
        if ok:
            idiom = "swap"
        elif definite:
            run.violated("C18.R1", f, (st_last + st_idx)[0].node, definite, kind="swap-guard")
            return
        elif len(st_last) == 1 and not st_idx and [e for e in stores if e is not st_last[0]]:
            # a swap through a position the rule cannot name (computed by a helper / loop it does not follow)
            run.undecided("C18.R1", f, st_last[0].node, "the listing is rearranged through position %s, which is not followed: cannot tell whether 'index.wtml' ends up last" %
                          show(slot([e for e in stores if e is not st_last[0]][0]))[:60], kind="swap-unknown-position")
            return
        else:
            got = [(show(slot(e))[:30], show(e.term[1][1])[:40]) for e in st_last + st_idx]
            run.violated("C18.R1", f, (st_last + st_idx)[0].node, "the listing is rearranged as %s: that does not put 'index.wtml' into the last slot while keeping every "
                         "other file (expected L[-1], L[i] = 'index.wtml', L[-1] with i = L.index('index.wtml'))" % got, kind="swap-idiom")
            return
    if idiom is None:
        front = [e for e in stores if e.term[1][1] == sentinel]
        if front:
            run.violated("C18.R1", f, front[0].node, "'index.wtml' is moved to position %s of the upload list, not to the end: it reaches the store before the files it vouches for" %
                         show(front[0].term[1][0][2]), kind="sentinel-not-last")
            return
    # (b) remove + append
    if idiom is None:
        rem = [e for e in calls_on if e.term[1][2] == "remove" and tuple(e.term[2]) == (sentinel,)]
        app = [e for e in calls_on if e.term[1][2] == "append" and tuple(e.term[2]) == (sentinel,)]
        ins = [e for e in calls_on if e.term[1][2] == "insert" and len(e.term[2]) == 2 and e.term[2][1] == sentinel]
        if rem and app and r.events.index(rem[0]) < r.events.index(app[0]):
            idiom = "remove+append"
        elif rem and ins:
            run.violated("C18.R1", f, ins[0].node, "'index.wtml' is re-inserted at position %s instead of being appended at the end" % show(ins[0].term[2][0]), kind="sentinel-not-last")
            return
    # (c) stable sort with sentinel key
    if idiom is None:
        srt = [e for e in calls_on if e.term[1][2] == "sort"]
        if srt:
            key = dict(srt[0].term[3]).get("key")
            lam = [n for n, env in r.lambdas]
            ok = False
            why = "no key"
            if key is not None and key[0] == "lambda" and lam and not dict(srt[0].term[3]).get("reverse"):
                body = lam[-1].body
                arg = lam[-1].args.args[0].arg if lam[-1].args.args else None
                if isinstance(body, ast.Compare) and len(body.ops) == 1 and isinstance(body.ops[0], ast.Eq):
                    sides = [body.left, body.comparators[0]]
                    if any(isinstance(s, ast.Name) and s.id == arg for s in sides) and any(isinstance(s, ast.Constant) and s.value == SENTINEL for s in sides):
                        ok = True
                if not ok:
                    why = "key `%s` is not `name == 'index.wtml'`: other files can sort at or after the sentinel" % ast.unparse(body)[:60]
            if ok:
                idiom = "stable-sort"
            else:
                run.violated("C18.R1", f, srt[0].node, "the upload list is sorted with %s: 'index.wtml' is not guaranteed to be the last element (e.g. index_rel.wtml "
                             "listed after it stays after it), so the store can hold index.wtml while another file is missing or truncated" % why, kind="sort-key")
                return
    if idiom is None:
        run.violated("C18.R1", f, lnode, "nothing moves 'index.wtml' to the end of the upload list: with the operating system's directory order it can be transferred "
                     "before other files of the image", kind="no-reorder")
        return
    # nothing reorders the list again afterwards (sort / reverse / shuffle) before the loop
    later = [e for e in calls_on if e.term[1][2] in ("sort", "reverse") and idiom != "stable-sort"]
    if later:
        run.violated("C18.R1", f, later[0].node, "the list is %s-ed again after index.wtml was moved to the end" % later[0].term[1][2], kind="reordered-after")
        return
    run.holds("C18.R1", f, lnode, "move-to-end idiom `%s`: 'index.wtml' is the last element of the uploaded list whenever it is present; other files keep being uploaded" % idiom,
              idiom=idiom)


def project_of(run):
    return run.project


def _is_index_or_none(project, h):
    """Is *h* `def find(items, wanted)` returning items.index(wanted), and None exactly when that raises ValueError?"""
    ps = h.params()
    if len(ps) != 2 or h.cls is not None:
        return False
    rets = [n for n in own_nodes(h.node) if isinstance(n, ast.Return)]
    tries = [n for n in own_nodes(h.node) if isinstance(n, ast.Try)]
    if len(tries) != 1 or len(rets) != 2 or tries[0].finalbody or tries[0].orelse or len(tries[0].handlers) != 1:
        return False
    t = tries[0]
    body_ret = [s for s in t.body if isinstance(s, ast.Return)]
    if len(t.body) != 1 or len(body_ret) != 1:
        return False
    v = body_ret[0].value
    good_val = isinstance(v, ast.Call) and isinstance(v.func, ast.Attribute) and v.func.attr == "index" and isinstance(v.func.value, ast.Name) and v.func.value.id == ps[0] \
        and len(v.args) == 1 and isinstance(v.args[0], ast.Name) and v.args[0].id == ps[1] and not v.keywords
    hd = t.handlers[0]
    catches = common.handler_catches_class(hd, "ValueError")
    hret = [s for s in hd.body if isinstance(s, ast.Return)]
    none_ret = len(hd.body) == 1 and len(hret) == 1 and (hret[0].value is None or (isinstance(hret[0].value, ast.Constant) and hret[0].value.value is None))
    # nothing but the try (and a docstring) in the helper
    rest = [s for s in h.node.body if s is not t and not (isinstance(s, ast.Expr) and isinstance(s.value, ast.Constant))]
    return good_val and catches and none_ret and not rest


def _r3(run, f, cfg, put):
    project = run.project
    pn = cfg.node_containing(put.node)
    bad = False
    for s, blk in enclosing_stmts(f.node, pn.ast):
        if isinstance(s, ast.Try) and blk == "body":
            for h in s.handlers:
                hn = [x for x in cfg.nodes if x.kind == "except" and x.ast is h]
                if hn and (cfg.exit.id in cfg.reachable(hn[0].id) or any(cfg.nodes[i].kind == "loop" for i in cfg.reachable(hn[0].id))):
                    run.violated("C18.R3", f, h, "an upload error is caught at line %d and publish carries on: the remaining files (finally index.wtml) are sent "
                                 "and the image is moved to published/ although a transfer failed" % h.lineno, kind="upload-error-swallowed")
                    bad = True
            if s.finalbody and any(isinstance(y, (ast.Return, ast.Continue, ast.Break)) for x in s.finalbody for y in ast.walk(x)):
                run.violated("C18.R3", f, s, "a return/continue/break in a finally clause around the upload discards the upload error", kind="upload-error-discarded")
                bad = True
    if not bad:
        run.holds("C18.R3", f, put.node, "no handler around put_item in publish: a failed transfer aborts publish")
    # every store implementation
    impls = [g for g in project.py_funcs() if g.name == "put_item" and g.cls is not None and g.module.name.startswith(PIPE)]
    for g in impls:
        run.note_func(g)
        if any(isinstance(d, ast.Name) and d.id == "abstractmethod" or (isinstance(d, ast.Attribute) and d.attr == "abstractmethod") for d in g.node.decorator_list):
            continue
        gc = CFG(g.node)
        swallow = None
        for t in [x for x in own_nodes(g.node) if isinstance(x, ast.Try)]:
            for h in t.handlers:
                hn = [x for x in gc.nodes if x.kind == "except" and x.ast is h]
                if hn and gc.exit.id in gc.reachable(hn[0].id):
                    # handlers that only guard directory creation (EEXIST idiom) are fine: body of the try has no write of the item
                    body_calls = {callee_attr(c) for s in t.body for c in ast.walk(s) if isinstance(c, ast.Call)}
                    if body_calls <= {"makedirs", "mkdir"}:
                        continue
                    swallow = h
        # ... and the item is really transferred on every normal path: the `source` stream is handed to a library call (the copy /
        # upload itself, not a project helper that merely inspects it) before put_item can return
        allp = [a.arg for a in g.node.args.posonlyargs + g.node.args.args + g.node.args.kwonlyargs if a.arg not in ("self", "cls")]
        src_params = [p_ for p_ in allp if p_ == "source"] or allp[-1:]
        def transfers(call):
            if common.resolve_callee(project, g, call) is not None:
                return False
            args = list(call.args) + [k.value for k in call.keywords]
            return any(isinstance(a, ast.Name) and a.id in src_params for a in args)
        xfer = {n_.id for n_ in gc.nodes for c in gc.calls_at(n_) if transfers(c)}
        if not xfer:
            run.undecided("C18.R3", g, None, "%s.put_item: no library call receives the source stream" % g.cls.name, kind="no-transfer-call")
        elif gc.exit.id in gc.reachable(gc.entry.id, avoid=xfer, skip_labels=("exc",)):
            skip = [n_ for n_ in gc.nodes if n_.kind == "return" and n_.id in gc.reachable(gc.entry.id, avoid=xfer, skip_labels=("exc",))]
            run.violated("C18.R3", g, skip[0].ast if skip else None, "%s.put_item can return normally without transferring the item (a path from entry to exit avoids the "
                         "copy / upload of `source`): a file left incomplete by an interrupted run is taken for sent, publish goes on to index.wtml" % g.cls.name,
                         kind="transfer-skipped")
        else:
            run.holds("C18.R3", g, None, "%s.put_item transfers the source on every normal path" % g.cls.name)
        if swallow is not None:
            run.violated("C18.R3", g, swallow, "%s.put_item catches %s and returns normally: a failed store write looks like success, so publish goes on to send index.wtml "
                         "and to move the image to published/" % (g.cls.name, ast.unparse(swallow.type) if swallow.type else "everything"), kind="store-error-swallowed")
        else:
            run.holds("C18.R3", g, None, "%s.put_item lets write errors propagate" % g.cls.name)


def _r5(run):
    project = run.project
    # refresh tests check_exists(uniq_id, SENTINEL)
    f = project.fn(PIPE + ".cli.refresh_impl")
    run.note_func(f)
    ev = sym.make_evaluator(project, PIPE + ".cli", [], inline_local=True)      # marker tests may sit in a module helper,
    ev.unroll = True                                                            # driven by a literal table of markers
    ev.inline_resolved = True                                                   # ... or in a method of the manager object
    ev.no_inline = ("check_exists", "put_item", "get_item", "list_items")
    r = ev.run(f.node)
    ce = [e for e in r.events if e.kind == "call" and e.term[1][0] == "attr" and e.term[1][2] == "check_exists"]
    names = [e.term[2][1] for e in ce if len(e.term[2]) == 2]
    done = [e for e in ce if len(e.term[2]) == 2 and e.term[2][1] == ("const", SENTINEL)]
    # every marker whose presence makes refresh pass over a candidate is either the sentinel or a flag file that some
    # command stores on its own (put_item(<id>, '<name>', ...) with a literal name, e.g. skip.flag) - never another file of
    # the image's directory, which publish may upload long before the sentinel
    flags = set()
    for g_ in project.py_funcs():
        if not g_.module.name.startswith(PIPE):
            continue
        for c_ in own_calls(g_.node):
            if callee_attr(c_) == "put_item" and len(c_.args) >= 2 and isinstance(c_.args[1], ast.Constant) and isinstance(c_.args[1].value, str) \
                    and not any(isinstance(a_, ast.Starred) for a_ in c_.args):
                flags.add(c_.args[1].value)
    skips = [e for e in r.events if e.kind in ("continue", "break", "return")]
    other = []
    for e in ce:
        if len(e.term[2]) == 2 and e.term[2][1][0] == "const" and e.term[2][1][1] not in (SENTINEL,) and e.term[2][1][1] not in flags:
            # does a positive answer let the candidate be skipped?
            for sk in skips:
                if any(c[0] == e.term and c[1] for c in sk.pc if c[0] != "loop") or any(e.term in atoms_of(c[0]) for c in sk.pc if c[0] != "loop" and c[0] != e.term):
                    other.append((e, sk))
                    break
    if other:
        e, sk = other[0]
        run.violated("C18.R5", f, e.node, "refresh passes over a candidate when '%s' is in the store, but publish gives that file no place in the upload order ('%s' is "
                     "what it saves for last): an image whose publication was interrupted is taken for done and never completed" % (e.term[2][1][1], SENTINEL),
                     kind="sentinel-mismatch-refresh")
    elif done:
        run.holds("C18.R5", f, done[0].node, "refresh treats the presence of '%s' in the store as 'already published'" % SENTINEL)
    elif not ce:
        run.undecided("C18.R5", f, None, "refresh does not ask the store for a marker file in any place the analysis follows", kind="sentinel-refresh-shape")
    elif [n for n in names if n[0] != "const"] and not [e for e in ce if len(e.term[2]) != 2]:
        run.undecided("C18.R5", f, ce[0].node, "refresh tests %s in the store: not constant file names" % [show(n)[:40] for n in names], kind="sentinel-refresh-shape")
    else:
        what = [show(n) for n in names] if names else "the bare item (%s: no file name)" % show(ce[0].term)[:60]
        run.violated("C18.R5", f, ce[0].node if ce else None, "refresh tests %s in the store, but publish saves '%s' for last: the done-marker and the last-transferred file differ"
                     % (what, SENTINEL), kind="sentinel-mismatch-refresh")
    g = project.fn(PIPE + ".cli.approve_impl") if (PIPE + ".cli.approve_impl") in project.funcs else None
    if g is not None:
        run.note_func(g)
        rg = ev.run(g.node)
        # a file opened for writing whose path ends in the sentinel name
        joins = [e for e in rg.events if e.kind in ("with", "call") and e.term[0] == "call" and e.term[1] == ("sym", "open") and e.term[2]
                 and any(a_ in (("const", "wt"), ("const", "w"), ("const", "wb")) for a_ in list(e.term[2][1:]) + [v for k, v in e.term[3]])]
        ok = any(("const", SENTINEL) in atoms_of(e.term[2][0]) for e in joins)
        if ok:
            run.holds("C18.R5", g, joins[0].node, "approve writes '%s' next to index_rel.wtml" % SENTINEL)
        else:
            run.violated("C18.R5", g, joins[0].node if joins else None, "approve no longer writes '%s'" % SENTINEL, kind="sentinel-mismatch-approve")


def _r6(run):
    project = run.project
    f = project.fn(PIPE + ".local_io.LocalPipelineIo.put_item")
    run.note_func(f)
    ev = sym.make_evaluator(project, PIPE + ".local_io", [], inline_local=True)
    ev.self_class = PIPE + ".local_io.LocalPipelineIo"      # "open the item's file" may be a private helper / context manager of the store
    ev.inline_resolved = True
    ev.no_inline = ("_make_item_name",)
    r = ev.run(f.node)
    ev.no_inline = ()
    opens = [e for e in r.events if e.kind == "with" and e.term[0] == "call" and e.term[1] == ("sym", "open")]
    copies = [e for e in r.events if e.kind == "call" and show(e.term[1]) == "shutil.copyfileobj"]
    name = project.fn(PIPE + ".local_io.LocalPipelineIo._make_item_name")
    rn = ev.run(name.node)
    want_name = ("call", ("attr", ("attr", ("sym", "os"), "path"), "join"), (("attr", ("sym", "self"), "_path_prefix"), ("star", ("sym", name.params()[1]))), ())
    vararg = f.node.args.vararg.arg if f.node.args.vararg else (f.params()[1] if len(f.params()) > 1 else "path")
    problems = []
    if not (len(rn.returns) == 1 and rn.returns[0][1] == want_name):
        problems.append("item name is %s, expected os.path.join(prefix, *path)" % (show(rn.returns[0][1])[:80] if rn.returns else "?"))
    target = ("call", ("attr", ("sym", "self"), "_make_item_name"), (("sym", vararg),), ())
    final_write = None
    for e in opens:
        mode_t = e.term[2][1] if len(e.term[2]) >= 2 else dict(e.term[3]).get("mode")
        if mode_t in (("const", "wb"),):
            final_write = e
    if final_write is None:
        problems.append("the item is not opened with mode 'wb' (truncate/overwrite)")
    elif final_write.term[2][0] != target:
        # atomic-replace idiom: write a temp name then os.replace(tmp, target)
        repl = [e for e in r.events if e.kind == "call" and show(e.term[1]) in ("os.replace", "os.rename") and len(e.term[2]) == 2 and e.term[2][1] == target
                and e.term[2][0] == final_write.term[2][0]]
        if not repl:
            problems.append("data are written to %s, not to the item path made of the given components" % show(final_write.term[2][0])[:80])
    cp_src = None
    if copies:
        cp_src = copies[0].term[2][0] if copies[0].term[2] else dict(copies[0].term[3]).get("fsrc")
    if not copies or cp_src != ("sym", "source"):
        problems.append("the source stream is not copied into the item")
    if problems:
        run.violated("C18.R6", f, None, "LocalPipelineIo.put_item: " + "; ".join(problems), kind="local-store-write")
    else:
        run.holds("C18.R6", f, None, "local store: open(join(prefix, *path), 'wb') + copyfileobj(source, f)")



# ---------------------------------------------------------------------------------------------------------------------
# R7  who may file an image under `published/`: only publish(), after its transfer loop (R2 decides the "after").  Anything else
#     that moves a directory there - a start-up "reconcile", a refresh, a clean-up - declares an image done on evidence weaker than
#     a completed run (e.g. an index.wtml in the store that a failed last transfer left truncated), and a re-run no longer
#     completes the job.

_MOVERS = {"os.rename", "os.replace", "os.renames", "shutil.move", "shutil.copytree"}


def _mentions_published(node, tainted):
    for x in ast.walk(node):
        if isinstance(x, ast.Constant) and x.value == "published":
            return True
        if isinstance(x, ast.Name) and x.id in tainted:
            return True
    return False


def _r7_who_files_published(run, pipe_funcs):
    project = run.project
    sites = []
    for g in pipe_funcs:
        if g.module.kind != "py":
            continue
        tainted = set()
        for _i in range(3):
            for x in own_nodes(g.node):
                if isinstance(x, ast.Assign) and _mentions_published(x.value, tainted):
                    for t in x.targets:
                        tainted |= {y.id for y in ast.walk(t) if isinstance(y, ast.Name)}
        for c in own_calls(g.node):
            if (dotted(c.func) or "") in _MOVERS and len(c.args) >= 2 and _mentions_published(c.args[1], tainted):
                sites.append((g, c))
    if not sites:
        run.undecided("C18.R7", None, None, "no site that files an image under published/ was found (1 confirmed by hand)", kind="floor", construct="<published movers>",
                      file="toasty/pipeline/__init__.py")
        return
    # callers of each function, within the pipeline package
    callers = {}
    for g in pipe_funcs:
        for c in own_calls(g.node):
            tgt = common.resolve_callee(project, g, c)
            if tgt is not None:
                callers.setdefault(tgt.qual, set()).add(g.qual)
    pub = PIPE + ".PipelineManager.publish"

    def only_from_publish(q, seen=()):
        if q == pub:
            return True
        cs = callers.get(q, set())
        if not cs or q in seen:
            return False
        return all(only_from_publish(c, seen + (q,)) for c in cs)
    for g, c in sites:
        run.note_func(g)
        if only_from_publish(g.qual):
            run.holds("C18.R7", g, c, "%s files an image under published/%s" % (g.short, "" if g.qual == pub else " and is reached from publish() only"))
        else:
            run.violated("C18.R7", g, c, "%s moves an image directory to published/ outside publish(): the image is declared done without this run having transferred its files "
                         "(index.wtml last); after a failed or truncated last transfer a re-run no longer completes the job and refresh counts the image as done" % g.short,
                         kind="published-outside-publish")
