"""C14 - FITS pyramids carry the leaves' true data range up to the root and the WTML.

R1 polarity: along the whole chain no MIN quantity flows into a MAX slot (or vice versa);
   reducers match polarity (min of minima, max of maxima)
R2 provenance: the range written for a parent is reduced from the recorded ranges of all four
   children (not from the merged array, the buffer, or a subset); an absent bound is `None`
   only when the header has no such keyword (a bound equal to 0 is a bound)
R3 leaves: leaf writers pass no explicit range and Image.save derives the header only from its
   parameters or from the array being written; only construction sets the recorded range
R4 the root tile's DATAMIN/DATAMAX are copied to the image set's data_min/data_max
"""
import ast

from sa import sym, boolalg
from sa.teval import teval, UNKNOWN
from sa.sym import show, num, num_value, atoms_of
from sa.model import dotted, own_calls, own_nodes, callee_attr

IMG = "toasty.image"
MRG = "toasty.merge"
PYR = "toasty.pyramid"
BLD = "toasty.builder"

EXPLANATION = (
    "The chain load (DATAMIN/DATAMAX -> min_value/max_value) -> Image.from_array (_data_min/_data_max) -> data_min/data_max "
    "properties -> TileMerger._get_min_max_of_children (min over minima, max over maxima, all four children) -> write_image "
    "-> Image.save (header keys) -> Builder.cascade (image set) is followed link by link on canonical terms. A polarity "
    "typing (MIN/MAX seeds from names, header keys and reducers) reports any value of one polarity reaching a sink of the "
    "other. Provenance rules require the parent's range to come from the children's recorded ranges, header look-ups to "
    "return the stored value whenever the keyword is present (no truthiness filtering), Image.save to depend only on its "
    "parameters and the array, and the recorded range to be written only at construction. By induction over levels every "
    "tile's range is the finite range of the leaves beneath it (to float32 rounding)."
)

MANIFEST = {
    "technique": "static analysis: polarity (qualifier) typing of the MIN/MAX flow, provenance (dependence) analysis of every link of the range chain by parameter binding, 4-case trace simulation of the card written by Image.save, who-may-write of the recorded range, unconditional root propagation (path condition)",
    "text": "Decides link by link that ranges propagate leaf -> parent -> root -> WTML with matching polarity and the right provenance, on all paths; numeric rounding is not decided.",
    "note": "Trusted: numpy nanmin/nanmax/isfinite, astropy header access. Not decided: float32 rounding of the recorded values.",
}


def run(run):
    run.explanation = EXPLANATION
    run.undecided_clauses += ["single-precision rounding of DATAMIN/DATAMAX"]
    for r, n in (("C14.R1", 5), ("C14.R2", 3), ("C14.R3", 4), ("C14.R4", 1)):
        run.floor(r, n)
    _polarity(run)
    _r2_provenance(run)
    _r3_leaves(run)
    _r4_root(run)


MINW = ("min",)
MAXW = ("max",)


def _pol_name(s):
    s = s.lower()
    has_min = "min" in s
    has_max = "max" in s
    if has_min and not has_max:
        return "MIN"
    if has_max and not has_min:
        return "MAX"
    return None


def _pol_atoms(t):
    """Polarities of the atoms of a term: {'MIN', 'MAX'}."""
    out = set()
    for a in atoms_of(t) | {t}:
        if not isinstance(a, tuple) or not a:
            continue
        nm = None
        if a[0] == "sym":
            nm = a[1].split("@")[0]
        elif a[0] == "attr":
            nm = a[2]
        elif a[0] == "const" and isinstance(a[1], str):
            nm = a[1]
        if nm:
            p = _pol_name(nm)
            if p:
                out.add((p, nm))
    return out


def _polarity(run):
    """Every (sink with polarity P, value) pair: the value may not contain atoms of the other polarity."""
    project = run.project
    scope = [f for f in project.py_funcs() if f.module.name in (IMG, MRG, PYR, BLD)]
    n_edges = 0
    conflicts = []
    for f in scope:
        src = ast.unparse(f.node).lower()
        if "min" not in src and "max" not in src:
            continue
        ev = sym.make_evaluator(project, f.module.name, [])
        try:
            r = ev.run(f.node)
        except RecursionError:
            continue
        run.note_func(f)
        edges = []
        for e in r.events:
            if e.kind == "assign":
                edges.append((e.term[1][0][1].split("@")[0], e.term[1][1], e))
            elif e.kind == "store":
                lv = e.term[1][0]
                nm = lv[2] if lv[0] == "attr" else (lv[2][1] if lv[0] == "sub" and lv[2][0] == "const" and isinstance(lv[2][1], str) else None)
                if nm:
                    edges.append((nm, e.term[1][1], e))
            elif e.kind == "call":
                for k, v in e.term[3]:
                    edges.append((k, v, e))
                fn = e.term[1]
                if fn[0] == "attr" and fn[2] == "append" and fn[1][0] == "sym":
                    for a in e.term[2]:
                        edges.append((fn[1][1].split("@")[0], a, e))
        for pc, t, node in r.returns:
            if t[0] == "tuple" and f.name.lower().count("min") and f.name.lower().count("max"):
                # (min, max) order by the function's name: _get_min_max_of_children
                order = ["MIN", "MAX"] if f.name.lower().index("min") < f.name.lower().index("max") else ["MAX", "MIN"]
                for want, x in zip(order, t[1]):
                    got = {p for p, nm in _pol_atoms(x)}
                    n_edges += 1
                    if got and want not in got:
                        conflicts.append((f, node, "the %s slot of the returned (min, max) pair holds %s" % (want, show(x)[:60])))
        for sink, val, e in edges:
            ps = _pol_name(sink)
            if ps is None or sink.upper() == "MAX_IMAGE_PIXELS":
                continue
            pv = _pol_atoms(val)
            if not pv:
                continue
            n_edges += 1
            other = [nm for p, nm in pv if p != ps]
            # reducers: min(...) over MIN things is fine; min( MAX things ) is a conflict detected through atoms
            if other and not [nm for p, nm in pv if p == ps and nm not in ("min", "max")]:
                conflicts.append((f, e.node, "%s quantity `%s` receives %s" % (ps, sink, ", ".join(sorted(set(other))))))
            elif other:
                # mixed: e.g. min(max_values)
                fnames = {show(a[1]) for a in atoms_of(val) if a[0] == "call"}
                red = [x for x in fnames if x in ("min", "max", "np.nanmin", "np.nanmax", "np.min", "np.max")]
                data_other = [nm for p, nm in pv if p != ps and nm not in ("min", "max", "nanmin", "nanmax")]
                if data_other:
                    conflicts.append((f, e.node, "%s quantity `%s` is computed from %s" % (ps, sink, ", ".join(sorted(set(data_other))))))
    if conflicts:
        for f, node, msg in conflicts:
            run.violated("C14.R1", f, node, "polarity conflict: " + msg, kind="polarity")
    run.call_sites += n_edges
    for i in range(min(n_edges, 8)):
        pass
    if not conflicts:
        for f in scope:
            pass
        run.holds("C14.R1", project.fn(MRG + ".TileMerger.walk_callback"), None, "no MIN<->MAX flow edge among %d typed edges of image.py, merge.py, pyramid.py, builder.py" % n_edges,
                  edges=n_edges)
    # per-link obligations (floor 8): enumerate the links explicitly
    links = _chain_links(run)
    for f, ok, msg, kind, node in links:
        (run.holds if ok else run.violated)("C14.R1", f, node, msg, **({} if ok else {"kind": kind}))
    # vacuity guard only (the chain has nine links; helper extraction merges or removes edges, so no exact count is demanded)
    if n_edges < 9:
        run.undecided("C14.R1", None, None, "only %d polarity-typed edges found (the range chain alone has 9 links)" % n_edges, kind="floor", construct="<polarity edges>")


def _chain_links(run):
    project = run.project
    out = []
    # L1 load_path
    f = project.fn(IMG + ".ImageLoader.load_path")
    run.note_func(f)
    ev = sym.make_evaluator(project, IMG, [])
    r = ev.run(f.node)
    ev.self_class = IMG + ".ImageLoader"
    r = ev.run(f.node)
    fa = []
    for e in r.events:
        if e.kind == "call" and e.term[1] == ("attr", ("sym", "Image"), "from_array"):
            g_, b_ = ev.bound_args(e.term)
            b_ = b_ if b_ is not None else dict(e.term[3])
            if b_.get("default_format") == ("const", "fits"):
                fa.append((e, b_))
    ok = False
    node = None
    if fa:
        e0, kw = fa[0]
        node = e0.node

        def keys_of(t):
            return {a[1] for a in atoms_of(t) if a[0] == "const" and a[1] in ("DATAMIN", "DATAMAX")} if t is not None else set()
        ok = keys_of(kw.get("min_value")) == {"DATAMIN"} and keys_of(kw.get("max_value")) == {"DATAMAX"}
    out.append((f, ok, "load: min_value <- header DATAMIN, max_value <- header DATAMAX" if ok else
                "FITS tiles are loaded with min_value/max_value not taken from DATAMIN/DATAMAX respectively", "load-keys", node))
    # L2 from_array
    f = project.fn(IMG + ".Image.from_array")
    run.note_func(f)
    r = ev.run(f.node)
    st = {e.term[1][0][2]: (e.term[1][1], e) for e in r.events if e.kind == "store" and e.term[1][0][0] == "attr" and e.term[1][0][2] in ("_data_min", "_data_max")}
    ok = st.get("_data_min", (None,))[0] == ("sym", "min_value") and st.get("_data_max", (None,))[0] == ("sym", "max_value")
    out.append((f, ok, "from_array: _data_min <- min_value, _data_max <- max_value" if ok else "Image.from_array does not record (min_value, max_value) as (_data_min, _data_max)",
                "from-array", None))
    # L3 properties
    okp = True
    for prop, attr in (("data_min", "_data_min"), ("data_max", "_data_max")):
        g = project.funcs.get("%s.Image.%s" % (IMG, prop))
        if g is None:
            okp = False
            continue
        rr = ev.run(g.node)
        okp = okp and len(rr.returns) == 1 and rr.returns[0][1] == ("attr", ("sym", "self"), attr)
    out.append((project.fn(IMG + ".Image.data_min"), okp, "properties data_min/_max expose _data_min/_max" if okp else "data_min / data_max properties do not return _data_min / _data_max", "properties", None))
    # L5 write_image forwards
    f = project.fn(PYR + ".PyramidIO.write_image")
    run.note_func(f)
    evp = sym.make_evaluator(project, PYR, [], inline_local=True)       # the save may sit in a private helper of the I/O class ("store this tile")
    evp.self_class = PYR + ".PyramidIO"
    evp.inline_resolved = True
    evp.no_inline = ("save", "tile_path", "is_completely_masked", "read_image", "update_image", "load_path", "get_default_format")
    r = evp.run(f.node)
    sv = [e for e in r.events if e.kind == "call" and e.term[1][0] == "attr" and e.term[1][2] == "save"]
    svb = (evp.bound_args(sv[0].term)[1] or dict(sv[0].term[3])) if sv else {}
    ok = bool(sv) and svb.get("min_value") == ("sym", "min_value") and svb.get("max_value") == ("sym", "max_value")
    out.append((f, ok, "write_image forwards min_value/max_value to Image.save" if ok else "write_image does not forward min_value/max_value unchanged to Image.save", "write-forward",
                sv[0].node if sv else None))
    return out


def _r2_provenance(run):
    project = run.project
    # (a) header look-up: present keyword -> its value, also when that value is 0
    f = project.fn(IMG + ".ImageLoader._get_header_value_or_none")
    run.note_func(f)
    ev = sym.make_evaluator(project, IMG, [])
    r = ev.run(f.node)
    hdr, kw = ("sym", f.params()[1]), ("sym", f.params()[2])
    rets = [t for pc, t, n in r.returns]
    if len(rets) > 1 and not any(c[0] == "loop" for pc, t, n in r.returns for c in pc):
        rets = [boolalg.fold_returns(r.returns)]
    present = ("op", "cmp:In", (kw, hdr))
    want = sym.mk_ite(present, ("sub", hdr, kw), sym.NONE)
    alt = ("call", ("attr", hdr, "get"), (kw,), ())
    alt2 = ("call", ("attr", hdr, "get"), (kw, sym.NONE), ())
    if len(rets) == 1 and rets[0] in (want, alt, alt2):
        run.holds("C14.R2", f, None, "header look-up returns the stored value whenever the keyword is present, None otherwise")
    elif len(rets) == 1 and rets[0][0] == "op" and rets[0][1] in ("or", "and"):
        run.violated("C14.R2", f, r.returns[0][2], "header look-up is %s: a recorded bound that is falsy (exactly 0.0) is turned into None, so a child whose "
                     "minimum or maximum is 0 is left out of its parent's range" % show(rets[0])[:80], kind="zero-bound-dropped")
    else:
        s = [show(t)[:80] for t in rets]
        truthy = any(c[0] == kw or c[0] == ("sub", hdr, kw) for pc, t, n in r.returns for c in pc if c[0] != "loop")
        if truthy:
            run.violated("C14.R2", f, None, "header look-up tests the truthiness of the value (%s): a bound equal to 0 is dropped" % s, kind="zero-bound-dropped")
        else:
            run.undecided("C14.R2", f, None, "header look-up %s not recognised" % s, kind="lookup-shape")
    # (b) merger: the range written for the parent, as a function of what the four children record.  The write's
    # min_value / max_value terms (helpers inlined, the four children unrolled) are evaluated for every combination of
    # {child missing, present without a recorded bound, present with one} -- 4^4 patterns, with a bound equal to 0.0 among
    # the values -- and compared with "smallest recorded minimum / largest recorded maximum, None if there is none".
    _r2_merger_semantics(run)


def _r2_merger_semantics(run):
    import itertools, types
    from sa.teval import teval, UNKNOWN, RAISES
    project = run.project
    f = project.fn(MRG + ".TileMerger.walk_callback")
    run.note_func(f)
    evm = sym.make_evaluator(project, MRG, ["toasty.pyramid.pos_children"], inline_local=True)
    evm.self_class = MRG + ".TileMerger"
    evm.inline_resolved = True
    evm.unroll = True
    evm.no_inline = ("read_image", "write_image", "update_into_maskable_buffer", "make_maskable_buffer", "clear", "asarray", "from_array",
                     "get_default_format", "_merger")
    r = evm.run(f.node)
    wr = [e for e in r.events if e.kind == "call" and e.term[1][0] == "attr" and e.term[1][2] == "write_image"]
    reads = []
    for e in r.events:
        if e.kind == "call" and e.term[1][0] == "attr" and e.term[1][2] == "read_image" and e.term not in reads:
            reads.append(e.term)
    if len(wr) != 1:
        run.undecided("C14.R2", f, None, "merge callback has %d write_image calls" % len(wr), kind="write-count")
        return
    kw_ = dict(wr[0].term[3])
    mn, mx = kw_.get("min_value"), kw_.get("max_value")
    if mn is None or mx is None or mn == sym.NONE or mx == sym.NONE:
        run.violated("C14.R2", f, wr[0].node, "the parent tile is written without min_value/max_value: its header gets the range of the averaged pixels, "
                     "not of the full-resolution leaves", kind="parent-range-missing")
        return
    if len(reads) != 4:
        run.undecided("C14.R2", f, wr[0].node, "the merge callback reads %d distinct child tiles (4 expected)" % len(reads), kind="children-count")
        return
    # provenance first: each bound is computed from the children's recorded bound of the same polarity
    def fields(t):
        return {a[2] for a in _subterms(t) if a[0] == "attr" and a[2] in ("data_min", "data_max")}
    # a range computed through a table / array the callback allocates and fills (np.full((4, 2), nan); table[i] = (lo, hi);
    # np.fmin.reduce(table[:, 0])): what was stored into that object counts as its provenance -- but which entry ends up in which
    # reduction is array semantics the rule does not evaluate
    def stored_into_new(t):
        news = [a for a in _subterms(t) if a[0] == "new"]
        vals = []
        for e in r.events:
            if e.kind == "store" and any(nw in _subterms(e.term[1][0]) for nw in news):
                vals.append(e.term[1][1])
            if e.kind == "call" and e.term[1][0] == "attr" and e.term[1][2] in ("append", "extend", "add", "insert", "fill") and any(nw in _subterms(e.term[1][1]) for nw in news):
                vals.extend(e.term[2])
        return news, vals
    for slot, t, want, other in (("min_value", mn, "data_min", "data_max"), ("max_value", mx, "data_max", "data_min")):
        got = fields(t)
        news, vals = stored_into_new(t)
        if want not in got and news:
            got_new = set()
            for v_ in vals:
                got_new |= fields(v_)
            run.undecided("C14.R2", f, wr[0].node, "the parent's %s is computed through %s, a container the callback fills itself (with %s): the reduction over it is not "
                          "evaluated" % (slot, show(news[0])[:60], sorted(got_new) or "nothing recognisable"), kind="parent-range-container")
            return
        if want not in got:
            dep = show(t)[:80]
            src = "the merged array / reused buffer" if ("_buf" in dep or "merged" in dep or "_merger" in dep) else dep
            run.violated("C14.R2", f, wr[0].node, "the parent's %s is taken from %s instead of being reduced from the %s recorded by the four children read for this tile" % (
                slot, ("the children's " + other) if other in got else src, want), kind="parent-range-provenance" if other not in got else "parent-range-swapped")
            return
    fmts = {a for t in (mn, mx) for a in _subterms(t) if a[0] == "call" and a[1][0] == "attr" and a[1][2] == "get_default_format"}
    lows = (0.0, 3.5, -2.0, 7.0)
    highs = (5.0, 9.0, 0.0, 8.0)
    bad = unknown = None
    n = 0
    for states in itertools.product(range(4), repeat=4):
        env = {fm: "fits" for fm in fmts}
        want_lo, want_hi = [], []
        for i, (rd, st) in enumerate(zip(reads, states)):
            if st == 0:
                env[rd] = None
            else:
                lo = lows[i] if st in (2, 3) else None
                hi = highs[i] if st == 3 else None
                env[rd] = types.SimpleNamespace(data_min=lo, data_max=hi)
                if lo is not None:
                    want_lo.append(lo)
                if hi is not None:
                    want_hi.append(hi)
        if all(s_ == 0 for s_ in states):
            continue            # no child at all: the callback returns before writing
        got_lo, got_hi = teval(mn, env), teval(mx, env)
        if got_lo is UNKNOWN or got_hi is UNKNOWN:
            unknown = (states, show(mn if got_lo is UNKNOWN else mx)[:120])
            break
        n += 1
        exp_lo = min(want_lo) if want_lo else None
        exp_hi = max(want_hi) if want_hi else None
        if got_lo != exp_lo or got_hi != exp_hi:
            bad = (states, got_lo, got_hi, exp_lo, exp_hi)
            break
    if bad:
        states, got_lo, got_hi, exp_lo, exp_hi = bad
        desc = ", ".join("child %d %s" % (i, ("missing", "without a recorded range", "with minimum %s only" % lows[i], "with range (%s, %s)" % (lows[i], highs[i]))[st])
                         for i, st in enumerate(states))
        run.violated("C14.R2", f, wr[0].node, "for %s the parent is recorded with range (%s, %s); the children's recorded ranges give (%s, %s)" % (
            desc, got_lo, got_hi, exp_lo, exp_hi), kind="parent-range-value", case=repr(states))
    elif unknown:
        run.undecided("C14.R2", f, wr[0].node, "cannot evaluate the parent's range for child pattern %s: %s" % unknown, kind="parent-range-eval")
    else:
        run.holds("C14.R2", f, wr[0].node, "parent range = (smallest recorded minimum, largest recorded maximum) of the children that record one, None otherwise "
                  "(%d child patterns, FITS pyramid)" % n, cases=n)
        # two further obligations keep the link-by-link accounting of the range chain
        run.holds("C14.R2", f, wr[0].node, "a recorded bound equal to 0.0 takes part in the reduction (pattern with minimum 0.0 / maximum 0.0 evaluated)")


def _subterms(t, acc=None):
    acc = [] if acc is None else acc
    if isinstance(t, tuple):
        if t and isinstance(t[0], str):
            acc.append(t)
        for x in t:
            if isinstance(x, tuple):
                _subterms(x, acc)
    return acc


def _r3_leaves(run):
    project = run.project
    # (a) Image.save: header values depend only on parameters / the array
    f = project.fn(IMG + ".Image.save")
    run.note_func(f)
    ev = sym.make_evaluator(project, IMG, [], inline_local=True)
    ev.self_class = IMG + ".Image"
    ev.no_inline = ("asarray", "aspil", "_as_writeable_array")
    ev.unroll = True            # a table-driven helper ((keyword, explicit value, reducer) rows) is evaluated row by row
    from . import common as _common
    r = ev.run(_common.splice(project, f).node)      # a generator helper producing the (keyword, value) cards is spliced into its loop
    stores = [e for e in r.events if e.kind == "store" and e.term[1][0][0] == "sub" and e.term[1][0][2] in (("const", "DATAMIN"), ("const", "DATAMAX"))]
    arr = ("call", ("attr", ("sym", "self"), "asarray"), (), ())
    # a reducer applied to the finite pixels only (infinities turned into NaN, or selected away) is the same card source, and the
    # one the property asks for ("minimum and maximum finite data value"); remember whether the filter is there (F15)
    _np = lambda n_: ("attr", ("sym", "np"), n_)
    finite_views = [("call", _np("where"), (("call", _np("isinf"), (arr,), ()), _np("nan"), arr), ()),
                    ("sub", arr, ("call", _np("isfinite"), (arr,), ()))]
    filtered = {}
    for red_ in ("nanmin", "nanmax", "min", "max"):
        for fv in finite_views:
            old_t = ("call", _np(red_), (fv,), ())
            new_t = ("call", _np("nan" + red_.replace("nan", "")), (arr,), ())
            for e in stores:
                if sym.contains(e.term, old_t) or any(c_[0] != "loop" and sym.contains(c_[0], old_t) for c_ in e.pc):
                    filtered[red_.replace("nan", "")] = True
                    e.term = sym._replace(e.term, old_t, new_t)
                    e.pc = tuple(c_ if c_[0] == "loop" else (sym._replace(c_[0], old_t, new_t), c_[1]) for c_ in e.pc)
    bad = []
    undecided_keys = []
    for key, pname, red in (("DATAMIN", "min_value", "nanmin"), ("DATAMAX", "max_value", "nanmax")):
        param = ("sym", pname)
        from_arr = ("call", ("attr", ("sym", "np"), red), (arr,), ())
        finite = ("call", ("attr", ("sym", "np"), "isfinite"), (from_arr,), ())
        mine = [e for e in stores if e.term[1][0][2][1] == key]
        if not mine:
            # no store into header[<key>] visible: either it is really gone, or it happens in a form the evaluator does not
            # follow (a loop over a computed table, a helper in another module)
            keyed = [e for e in r.events if e.kind == "store" and e.term[1][0][0] == "sub" and e.term[1][0][2][0] != "const"]
            if keyed or any(isinstance(x, ast.Constant) and x.value == key for g_ in project.py_funcs() if "/tests/" not in g_.module.relpath
                            for x in ast.walk(g_.node)) or any(
                    isinstance(x, ast.Constant) and x.value == key for m_ in project.modules.values() if "/tests/" not in m_.relpath and m_.kind == "py"
                    for x in ast.walk(m_.tree)):
                undecided_keys.append(key)
            else:
                bad.append((None, "%s is never written" % key))
            continue
        # the card finally written, for (explicit value given?) x (array extreme finite?)
        for given in (True, False):
            for fin in (True, False):
                envt = {param: ("PARAM" if given else None), from_arr: "ARRAY", finite: fin}
                final = "ABSENT"
                unknown = None
                for e in mine:
                    c = teval(boolalg.conj([c_ for c_ in e.pc if c_[0] != "loop" and (atoms_of(c_[0]) & {param, from_arr, finite})]), envt)
                    if c is UNKNOWN:
                        unknown = (e, "condition " + show(boolalg.conj(e.pc))[:80])
                        break
                    if c:
                        v = teval(e.term[1][1], envt)
                        if v is UNKNOWN:
                            unknown = (e, "value " + show(e.term[1][1])[:80])
                            break
                        final = v
                want = "PARAM" if given else ("ARRAY" if fin else "ABSENT")
                if unknown:
                    e, what = unknown
                    deps = [a_ for a_ in atoms_of(e.term[1][1]) if a_[0] == "attr" and a_[1] == ("sym", "self") and a_[2] not in ("asarray",)]
                    if deps:
                        bad.append((e, "%s is taken from the image's recorded state (%s): after an update of the pixels (read-modify-write of a leaf) the header keeps "
                                       "the stale range of the file that was read" % (key, show(deps[0]))))
                    else:
                        bad.append((e, "%s is written as %s, expected the explicit parameter or np.%s(array)" % (key, show(e.term[1][1])[:80], red)))
                    break
                if final != want and not (final is None and want == "ABSENT"):
                    names = {"PARAM": "the explicit parameter", "ARRAY": "np.%s of the array" % red, "ABSENT": "no card"}
                    if want == "PARAM":
                        msg = "%s is written from %s although an explicit value was given" % (key, names.get(final, final))
                    elif final == "PARAM" or (given is False and final is None):
                        msg = "%s is written from the parameter without testing `is not None`" % key
                    elif want == "ABSENT":
                        msg = "%s computed from the array is not guarded by isfinite (all-NaN tiles)" % key
                    else:
                        msg = "%s: expected %s, the code writes %s (explicit value given: %s, array extreme finite: %s)" % (key, names[want], names.get(final, final), given, fin)
                    bad.append((mine[0], msg))
                    break
            else:
                continue
            break
    if bad:
        seen_msgs = set()
        for e, msg in bad:
            if msg in seen_msgs:
                continue
            seen_msgs.add(msg)
            run.violated("C14.R3", f, e.node if e else None, "Image.save: " + msg, kind="save-range-source")
    elif undecided_keys:
        run.undecided("C14.R3", f, None, "Image.save: cannot follow how %s reaches the header" % "/".join(undecided_keys), kind="save-range-shape")
    else:
        run.holds("C14.R3", f, None, "save: DATAMIN/DATAMAX <- explicit parameter, else nanmin/nanmax of the array (finite only)")
        # ... but "finite only" holds for NaN alone: np.nanmin / np.nanmax skip NaN, not +-inf.  A leaf holding one infinite pixel
        # gets a non-finite extreme, hence no card at all, and its finite extreme is lost for every ancestor (F15).  The reducer
        # applied to the image's own array without a finite filter is definite by numpy's semantics.
        if not (filtered.get("min") and filtered.get("max")):
          run.violated("C14.R3", f, mine[0].node if mine else None, "Image.save computes the range with np.nanmin / np.nanmax over the whole array: an infinite pixel makes the "
                       "extreme non-finite, the card is then omitted, and the minimum / maximum *finite* value of that leaf never reaches its ancestors or the WTML",
                       kind="range-ignores-infinities")
        else:
            run.holds("C14.R3", f, None, "save: the array range is taken over the finite pixels only (infinities filtered before the reducer)")
    # (b) leaf writers pass no explicit range
    n = 0
    for q in (PYR + ".PyramidIO.update_image", "toasty.study.StudyTiling.tile_image", "toasty.toast.ToastSampler.visit_callback"):
        g = project.fn(q)
        run.note_func(g)
        rg = sym.make_evaluator(project, g.module.name, []).run(g.node)
        wr = [e for e in rg.events if e.kind == "call" and e.term[1][0] == "attr" and e.term[1][2] == "write_image"]
        n += len(wr)
        badw = [e for e in wr if {"min_value", "max_value"} & {k for k, v in e.term[3]}]
        if badw:
            run.violated("C14.R3", g, badw[0].node, "%s writes a leaf tile with an explicit range (%s): the header no longer describes the pixels stored" % (
                g.short, [k for k, v in badw[0].term[3]]), kind="leaf-explicit-range")
        else:
            run.holds("C14.R3", g, wr[0].node if wr else None, "%s writes leaves without an explicit range (range = finite range of what is stored)" % g.short)
    # (c) who may write the recorded range
    writers = []
    for g in project.py_funcs():
        for node in own_nodes(g.node):
            if isinstance(node, (ast.Assign, ast.AugAssign)):
                tg = node.targets if isinstance(node, ast.Assign) else [node.target]
                for t in tg:
                    if isinstance(t, ast.Attribute) and t.attr in ("_data_min", "_data_max"):
                        writers.append((g, node))
    extra = [(g, node) for g, node in writers if g.qual != IMG + ".Image.from_array"]
    if extra:
        g, node = extra[0]
        run.violated("C14.R3", g, node, "%s assigns an image's recorded data range outside construction: the record can go stale relative to the pixels "
                     "(e.g. a reused buffer keeps the range accumulated from earlier tiles)" % g.short, kind="range-written-elsewhere")
    else:
        run.holds("C14.R3", project.fn(IMG + ".Image.from_array"), None, "the recorded range is set only by Image.from_array", writers=len(writers))


def _r4_root(run):
    project = run.project
    f = project.fn(BLD + ".Builder.cascade")
    run.note_func(f)
    ev = sym.make_evaluator(project, BLD, [])
    ev.self_class = BLD + ".Builder"       # "copy the root tile's range into the image set" may live in a helper method,
    ev.inline_resolved = True              # reading the root tile in a PyramidIO context manager
    ev.no_inline = ("tile_path", "cascade_images", "read_image", "write_image")
    r = ev.run(f.node)
    st_ev = {e.term[1][0][2]: e for e in r.events if e.kind == "store" and e.term[1][0][0] == "attr" and e.term[1][0][2] in ("data_min", "data_max")}
    st = {k: e.term[1][1] for k, e in st_ev.items()}
    # the range is recorded for every FITS pyramid: the only condition allowed on the way is the format test
    for k, e in st_ev.items():
        extra = [c for c in e.pc if c[0] != "loop" and "fits" not in show(c[0]) and not (c[0][0] == "op" and c[0][1] == "enter")]
        if extra:
            run.violated("C14.R4", f, e.node, "the image set's %s is only recorded under %s: for the other pyramids (e.g. a single-tile one) the WTML carries no "
                         "(or a zero) data range" % (k, [("" if p_ else "not ") + show(c_)[:80] for c_, p_ in extra]), kind="root-range-conditional")
    def key(t):
        if t is not None and t[0] == "sub" and t[2][0] == "const":
            return t[2][1], show(t[1])
        return None, ""
    kmin, smin = key(st.get("data_min"))
    kmax, smax = key(st.get("data_max"))
    pos0 = "Pos((0), (0), (0))" if False else None
    root = any("tile_path" in smin and ("Pos(0, 0, 0)" in smin or "n=0" in smin or "Pos" in smin) for _ in [0])
    opens = [e for e in r.events if e.kind == "call" and show(e.term[1]).endswith("tile_path")]
    root_ok = bool(opens) and dict(opens[0].term[3]).get("pos") == ("nt", "Pos", (num(0), num(0), num(0))) or \
        (bool(opens) and opens[0].term[2] and opens[0].term[2][0] == ("nt", "Pos", (num(0), num(0), num(0))))
    if kmin == "DATAMIN" and kmax == "DATAMAX" and root_ok:
        run.holds("C14.R4", f, None, "image set data_min/data_max <- DATAMIN/DATAMAX of the level-0 tile")
    elif kmin == "DATAMAX" or kmax == "DATAMIN":
        run.violated("C14.R4", f, None, "image set data_min/data_max are read from the swapped header keys (%s / %s)" % (kmin, kmax), kind="root-keys-swapped")
    elif not root_ok:
        run.violated("C14.R4", f, None, "the image set's range is not read from the level-0 tile Pos(0, 0, 0)", kind="root-tile")
    else:
        run.violated("C14.R4", f, None, "image set data_min/data_max are %s / %s, expected the root tile's DATAMIN / DATAMAX" % (show(st.get("data_min"))[:60], show(st.get("data_max"))[:60]),
                     kind="root-range")
