"""C05 - A tile's 256x256 pixel grid is the centres of the tiles eight levels deeper.

R1 isomorphism of the compiled subdivision (_subsample, through the .pyx front-end)
   with the Python subdivision (_div4): same corner tuples per quadrant, output
   quadrant (row, col) = child (dy, dx), same diagonal, base case writes the diagonal
   midpoint, x <- longitude, y <- latitude
R2 call contract: toast_tile_get_coords passes corners[0..3] as (ul, ur, lr, ll), 256,
   tile.increasing; `subsample` forwards them and returns (x, y); nothing else is returned
R3 256 = 2**8 halvings
R4 no history-dependent state around the grid computation
"""
import ast

from sa import sym
from sa.sym import show, num, num_value
from sa.model import dotted, own_calls, own_nodes
from . import memo, toastgeom
from .toastgeom import T, L, norm_mid

EXPLANATION = (
    "The Cython source is normalised into a Python AST (structure only) and _subsample is evaluated abstractly: its four "
    "recursive calls give, per output quadrant x[rows r, cols c], a corner tuple over (ul, ur, lr, ll) with the midpoint "
    "routine as a commutative atom. The same is done for _div4 in toast.py. The rule requires equality of the two tables "
    "with (r, c) = (dy, dx), the same diagonal selection, the base case writing the diagonal midpoint, and the call "
    "contract of toast_tile_get_coords/subsample. By induction on the recursion, cell (i, j) is the centre (diagonal "
    "midpoint) of tile (n+8, 256x+j, 256y+i). Pixel-inside-tile geometry is not decided."
)

MANIFEST = {
    "technique": "static analysis: Cython-subset front-end + structural isomorphism of two recursive subdivisions on canonical terms (helpers inlined, table loops unrolled); call-contract comparison (corners identity); memo-key dependence analysis; package-wide coordinate-system forwarding by parameter binding; a coordinate system counts as in hand through an unused parameter or a field of the class",
    "text": "Decides that the compiled 256x256 grid recursion and the Python tile subdivision are the same recursion (quadrant for quadrant, both diagonal orientations) and that the public entry point feeds it the tile's own corners; geometry (pixel inside tile) is not decided.",
    "note": "Trusted: the prebuilt extension was compiled from _libtoasty.pyx (cannot be rebuilt offline); C arithmetic of the midpoint. Not decided: every pixel centre lies inside its tile.",
}


def run(run):
    run.explanation = EXPLANATION
    run.assumptions += ["the prebuilt _libtoasty*.so was built from toasty/_libtoasty.pyx (no Cython in the sandbox)",
                        "_mid / mid compute the same symmetric great-circle midpoint"]
    run.undecided_clauses += ["every pixel centre lies inside its tile and within the corner latitude range (spherical geometry)"]
    for r, n in (("C05.R1", 6), ("C05.R2", 2), ("C05.R3", 1), ("C05.R4", 1), ("C05.R5", 1), ("C05.R6", 4)):
        run.floor(r, n)
    project = run.project
    # ---- R1
    f, r, calls = toastgeom.subsample_facts(project)
    run.note_func(f)
    ul, ur, lr, ll = (("sym", p) for p in f.params()[:4])
    inc = ("sym", f.params()[6])
    spec, ce = toastgeom.spec_children(ul, ur, lr, ll, inc)
    # compiled side against the canonical table
    compiled_ok = True
    if None in calls or sorted(calls) != [(0, 0), (0, 1), (1, 0), (1, 1)] or any(len(v) != 1 for v in calls.values()):
        run.violated("C05.R1", f, None, "_subsample must recurse exactly once into each of the four output quadrants x[rows, cols] "
                     "(found quadrants %s)" % sorted(calls, key=repr), kind="quadrants")
        compiled_ok = False
    else:
        for (rr, cc), [(corners, hy, inc_arg, e)] in sorted(calls.items()):
            dx, dy = cc, rr
            if corners != spec[(dx, dy)]:
                run.violated("C05.R1", f, e.node, "output quadrant (rows %d, cols %d) of the pixel grid is computed from corners %s; the tile "
                             "at (dx=%d, dy=%d) has corners %s" % (rr, cc, [_sh(c) for c in corners], dx, dy, [_sh(c) for c in spec[(dx, dy)]]),
                             kind="quadrant-corners", quadrant=[rr, cc])
                compiled_ok = False
            elif hy != (rr, cc):
                run.violated("C05.R1", f, e.node, "longitude and latitude arrays receive different quadrants (%s vs %s)" % ((rr, cc), hy), kind="xy-quadrants")
                compiled_ok = False
            elif inc_arg != inc:
                run.violated("C05.R1", f, e.node, "diagonal orientation is not forwarded unchanged to the recursion", kind="orientation-forward")
                compiled_ok = False
            else:
                run.holds("C05.R1", f, e.node, "quadrant (rows %d, cols %d) <- child (dx=%d, dy=%d) corners" % (rr, cc, dx, dy))
    # base case: x[0] = cen.x (lon), y[0] = cen.y (lat)
    stores = [e for e in r.events if e.kind == "store"]
    cen = norm_mid(("ite", inc, ("call", ("sym", "_mid"), (ll, ur), ()), ("call", ("sym", "_mid"), (ul, lr), ())))
    sx = [e for e in stores if e.term[1][0][1] == ("sym", f.params()[4])]
    sy = [e for e in stores if e.term[1][0][1] == ("sym", f.params()[5])]
    cen_x = ("ite", inc, ("attr", cen[2], "x"), ("attr", cen[3], "x"))
    cen_y = ("ite", inc, ("attr", cen[2], "y"), ("attr", cen[3], "y"))
    okb = len(sx) == 1 and len(sy) == 1 and norm_mid(sx[0].term[1][1]) == cen_x and norm_mid(sy[0].term[1][1]) == cen_y
    if okb:
        conds = [c for c in sx[0].pc if c[0] != "loop"]
        okb = len(conds) == 1 and conds[0][1] is True and conds[0][0][0] == "op" and conds[0][0][1] == "cmp:Eq" and 1 in [num_value(x) for x in conds[0][0][2]]
    if okb:
        run.holds("C05.R1", f, sx[0].node, "base case (n == 1): x <- lon, y <- lat of the diagonal midpoint for the tile's orientation")
    else:
        run.violated("C05.R1", f, (sx[0].node if sx else None), "base case of _subsample does not store (x, y) = (lon, lat) of the diagonal midpoint "
                     "selected by `increasing`", kind="base-case")
        compiled_ok = False
    # _mid: cen.x = longitude, cen.y = latitude
    g = project.fn(L + ".mid")
    run.note_func(g)
    # Python side against the same canonical table
    f2, tile, kids, r2 = toastgeom.div4_facts(project)
    run.note_func(f2)
    if kids is None:
        run.undecided("C05.R1", f2, None, "cannot evaluate _div4", kind="div4-shape")
    else:
        cs = ("attr", tile, "corners")
        sub = {ul: ("item", cs, 0), ur: ("item", cs, 1), lr: ("item", cs, 2), ll: ("item", cs, 3), inc: ("attr", tile, "increasing")}
        agree = True
        for k, (kpos, kcorners, kinc) in enumerate(kids):
            dx, dy = k % 2, k // 2
            want = ("tuple", tuple(_subst(c, sub) for c in spec[(dx, dy)]))
            if kcorners != want:
                agree = False
                run.violated("C05.R1", f2, r2.returns[0][2], "the Python subdivision and the compiled pixel-grid recursion disagree on child "
                             "(dx=%d, dy=%d): _div4 gives %s, _subsample (.pyx) uses %s" % (dx, dy, _sh(kcorners), [_sh(c) for c in spec[(dx, dy)]]),
                             kind="python-vs-compiled", child=k)
        if agree and compiled_ok:
            run.holds("C05.R1", f2, r2.returns[0][2], "_div4 and _subsample are the same recursion: 4 quadrants x 4 corners + diagonal, both orientations")
    # ---- R2
    h = project.fn(T + ".toast_tile_get_coords")
    run.note_func(h)
    ev = sym.make_evaluator(project, T, [], inline_local=True)
    rh = ev.run(h.node)
    tl = ("sym", h.params()[0])
    csn = ("attr", tl, "corners")
    want = ("call", ("sym", "subsample"), (("item", csn, 0), ("item", csn, 1), ("item", csn, 2), ("item", csn, 3), num(256),
                                          ("attr", tl, "increasing")), ())
    want2 = ("call", ("sym", "subsample"), (("item", csn, 0), ("item", csn, 1), ("item", csn, 2), ("item", csn, 3), num(256), ("attr", tl, "increasing")), ())
    rets = rh.returns
    tabs = set(memo.shared_tables(project, T))

    def is_table_lookup(t):
        # a value read back from a memo table: its soundness is decided by R4 (memo-key completeness)
        if t[0] == "sub" and t[1][0] == "sym" and t[1][1] in tabs:
            return True
        return t[0] == "call" and t[1][0] == "attr" and t[1][2] == "get" and t[1][1][0] == "sym" and t[1][1][1] in tabs

    # `a, b = subsample(...); return a, b` is the same pair (the wrapper returns two arrays: checked below)
    want2 = ("tuple", (("item", want, 0), ("item", want, 1)))
    bad = [(pc, t, n) for pc, t, n in rets if t not in (want, want2) and not is_table_lookup(t)]
    if not rets:
        run.undecided("C05.R2", h, None, "toast_tile_get_coords has no return", kind="no-return")
    elif bad:
        pc, t, n = bad[0]
        conds = [("" if p else "not ") + show(c)[:80] for c, p in pc if c != "loop" and c[0] != "loop"]
        s = show(t)
        if "subsample" in s:
            msg = "calls the grid routine as %s; expected subsample(corners[0], corners[1], corners[2], corners[3], 256, tile.increasing)" % s[:200]
            kind = "subsample-args"
        else:
            msg = ("returns %s%s instead of the compiled subdivision of the tile's own corners: those pixels are not the centres of the "
                   "tiles eight levels deeper" % (s[:160], (" under " + ", ".join(conds)) if conds else ""))
            kind = "other-grid"
        run.violated("C05.R2", h, n, msg, kind=kind)
    else:
        run.holds("C05.R2", h, rets[0][2], "returns subsample(corners[0..3] as ul, ur, lr, ll, 256, tile.increasing) on every path")
    # the wrapper in the .pyx
    w = project.fn(L + ".subsample")
    run.note_func(w)
    evl = sym.make_evaluator(project, L, [])
    rw = evl.run(w.node)
    pw = w.params()
    inner = [e for e in rw.events if e.kind == "call" and e.term[1] == ("sym", "_subsample")]
    okw = len(inner) == 1 and len(rw.returns) == 1
    if okw:
        a = inner[0].term[2]
        def pt(p):
            return ("call", ("sym", "Point"), (("call", ("sym", "DTYPE"), (("item", ("sym", p), 0),), ()),
                                               ("call", ("sym", "DTYPE"), (("item", ("sym", p), 1),), ())), ())
        okw = tuple(a[:4]) == tuple(pt(p) for p in pw[:4])
        okw = okw and (a[6] == ("sym", pw[5]) or a[6] == ("ite", ("sym", pw[5]), num(1), num(0)))
        ret = rw.returns[0][1]
        okw = okw and ret[0] == "tuple" and len(ret[1]) == 2 and a[4] == ret[1][0] and a[5] == ret[1][1] and a[4] != a[5]
        # arrays are fresh (npix, npix) arrays
        shape = ("tuple", (("sym", pw[4]), ("sym", pw[4])))
        okw = okw and all(x[0] == "new" and x[2][0] == "call" and x[2][2] and x[2][2][0] == shape for x in (a[4], a[5]))
    if okw:
        run.holds("C05.R2", w, inner[0].node, "subsample fills and returns (x, y) = npix x npix arrays from the four corners in order, orientation forwarded")
    else:
        run.violated("C05.R2", w, (inner[0].node if inner else None), "the Python-visible wrapper `subsample` does not forward (ul, ur, lr, ll, increasing) "
                     "to _subsample and return the two arrays it filled as (x, y)", kind="wrapper-contract")
    # ---- R3
    n256 = [t for pc, t, n in rets if t in (want, want2)]
    if n256:
        run.holds("C05.R3", h, None, "grid size literal 256 = 2**8: eight halvings to single cells", size=256)
    else:
        run.undecided("C05.R3", h, None, "grid size not established", kind="grid-size")
    # ---- R5 the corners a grid is computed from are the ones the subdivision produced: no other producer of tiles, and the
    # only in-place consumer of corners (the compiled bounding-box test behind the tile filters) never sees a tile's own array
    others = [x for x in toastgeom.tile_construction_sites(project) if x[0].qual not in (T + "._create_level1_tiles", T + "._div4")]
    def rewraps(c_):
        # the new tile's corners are made from an existing tile's corners (`t._replace(corners=..)`, Tile(pos, np.asarray(t.corners), ..))
        if isinstance(c_.func, ast.Attribute) and c_.func.attr == "_replace":
            return True
        corners = c_.args[1] if len(c_.args) > 1 else next((k.value for k in c_.keywords if k.arg == "corners"), None)
        return corners is not None and any(isinstance(x, ast.Attribute) and x.attr == "corners" for x in ast.walk(corners))
    definite = [x for x in others if rewraps(x[1])]
    if others and not definite:
        f_, c_, kind_ = others[0]
        run.undecided("C05.R5", f_, c_, "%s is a further producer of tiles (%s) beside _create_level1_tiles / _div4: that its corners agree with the subdivision's is not "
                      "decided" % (f_.short, kind_), kind="other-tile-producer")
    elif others:
        f_, c_, kind_ = definite[0]
        run.violated("C05.R5", f_, c_, "%s makes a tile whose corners are not those produced by the subdivision (%s): if they are a mutable array, the bounding-box "
                     "tile filter (which sorts np.asarray(tile.corners) in place) rewrites the corners the pixel grid is later computed from" % (f_.short, kind_),
                     kind="corners-rewrapped")
    else:
        run.holds("C05.R5", h, None, "tiles reach toast_tile_get_coords with the corners _create_level1_tiles / _div4 gave them")
    # ---- R4
    n = memo.check_module(run, "C05.R4", T, only_funcs=None)
    if not memo.selfcheck():
        run.undecided("C05.R4", None, None, "memo rule self-check failed", kind="selfcheck", construct="<memo selfcheck>")
    if not [o for o in run.obs if o.rule == "C05.R4"]:
        run.holds("C05.R4", h, None, "no memo table / shared scratch container in toasty.toast (0 uses); positive example flagged", table_uses=n)
    # ---- R6: "both coordinate systems": the tile whose grid is computed carries the corners of the system that was asked for
    if toastgeom.coordsys_forwarding(run, "C05.R6") < 4:
        run.undecided("C05.R6", None, None, "fewer than 4 call sites hand a coordinate system on", kind="floor", construct="<coordsys forwarding>", file="toasty/toast.py")


def _subst(t, m):
    if t in m:
        return m[t]
    if isinstance(t, tuple):
        t2 = tuple(_subst(x, m) if isinstance(x, tuple) else x for x in t)
        if len(t2) == 4 and t2[0] == "call" and t2[1] == toastgeom.MID:
            return ("call", toastgeom.MID, tuple(sorted(t2[2], key=repr)), ())
        return t2
    return t


def _sh(t):
    return show(t).replace("MID", "mid").replace("tile.corners#", "c")[:160]
