"""C20 - Each input file contributes exactly the HDU and WCS solution the user selected.

R1 selection consistency in the scan: on every path the HDU object yielded is hdul[<index yielded>]
   (or both come from one enumerate(hdul)); scalar applies to all files, a list is subscripted by the
   file's position; the scan keeps no state between files or passes
R2 the same for the WCS key (scalar / per-file / default ' ')
R3 shared loader: descriptions(), images() and export_simple() all derive from the one scan, in input
   order; the WCS of an item is built from that item's HDU header and *its* key
R4 option flow: load(), tile_fits() and the command-line loaders hand the user's hdu_index / wcs_key /
   blankval unchanged to the collection
"""
import ast

from sa import sym, termdiff
from sa.sym import show, num, num_value, atoms_of
from sa.model import dotted, own_calls, own_nodes, callee_attr
from . import memo

COLL = "toasty.collection"

EXPLANATION = (
    "SimpleFitsCollection._scan_hdus is evaluated abstractly; its single yield is a tuple of if-then-else terms over the "
    "selection form (int / list / None; str / list / None). Lifting the conditions gives one (index, hdu, key) triple per "
    "case, and each must satisfy hdu == hdul[index] with index = the scalar, the list entry at the file's position, or the "
    "position found by enumerate(hdul); likewise for the key. The scan must not write object state. Both public views and "
    "export_simple must iterate that scan; the WCS handed to each result must be WCS(<that item's hdu>.header, key=<that "
    "item's key>) of the current iteration (a remembered WCS must be keyed by the key too). Option forwarding is compared "
    "argument by argument from the entry points to the collection constructor."
)

MANIFEST = {
    "technique": "static analysis: case-lifted canonical terms of the generator's yield (selection consistency per case, helpers inlined), purity of the scan, shared-loader and argument-forwarding (dead/unused option) checks by parameter binding, memo-key dependence analysis",
    "text": "Decides for every selection form (scalar, per-file list, default) that the yielded HDU is the one at the yielded index, that descriptions/images/export share one scan and build each WCS from its own item, and that user options reach the collection unchanged through the Python API and the CLI loaders.",
    "note": "Trusted: astropy.io.fits HDUList indexing and WCS(header, key=...). Not decided: what astropy reads from a given file.",
}


def run(run):
    run.explanation = EXPLANATION
    for r, n in (("C20.R1", 3), ("C20.R2", 3), ("C20.R3", 4), ("C20.R4", 4)):
        run.floor(r, n)
    project = run.project
    ev = sym.make_evaluator(project, COLL, [], inline_local=True, no_inline=("_scan_hdus", "_load", "descriptions", "images", "export_simple"))
    ev.self_class = COLL + ".SimpleFitsCollection"      # private selection helpers of the collection belong to the scan
    _r1_r2(run, ev)
    _r3(run, ev)
    _r4(run)


def _leaves(t, conds=()):
    if t[0] == "ite":
        yield from _leaves(t[2], conds + ((t[1], True),))
        yield from _leaves(t[3], conds + ((t[1], False),))
    else:
        yield conds, t


def _r1_r2(run, ev):
    project = run.project
    f = project.fn(COLL + ".SimpleFitsCollection._scan_hdus")
    run.note_func(f)
    r = ev.run(f.node)
    if len(r.yields) != 1:
        run.undecided("C20.R1", f, None, "the scan has %d yield sites" % len(r.yields), kind="yield-sites")
        return
    pc, y, node = r.yields[0]
    if y[0] != "tuple" or len(y[1]) != 4:
        run.undecided("C20.R1", f, node, "the scan does not yield (path, hdu_index, hdu, wcs_key)", kind="yield-shape")
        return
    path_t, idx_t, hdu_t, key_t = y[1]
    # loop structure: for path_index, fits_path in enumerate(self._paths)
    paths = ("attr", ("sym", "self"), "_paths")
    en = ("call", ("sym", "enumerate"), (paths,), ())
    pidx, ppath = ("op", "index", (paths,)), ("elem", paths)        # what `for i, p in enumerate(self._paths)` binds
    if path_t != ppath:
        run.violated("C20.R1", f, node, "the yielded path is %s, not the current element of self._paths (input order)" % show(path_t)[:60], kind="path-order")
    # the opened file
    opens = [e for e in r.events if e.kind == "with" and e.term[0] == "call" and show(e.term[1]).endswith("fits.open")]
    if not opens or opens[0].term[2][0] != ppath:
        run.violated("C20.R1", f, node, "the HDU list is not opened from the current path", kind="open-path")
        return
    hdul = ("op", "enter", (opens[0].term,))
    sel = ("attr", ("sym", "self"), "_hdu_index")
    cases = list(_leaves(termdiff.lift(("tuple", (idx_t, hdu_t)))))
    seen_kinds = set()
    bad = False
    for conds, leaf in cases:
        if leaf[0] != "tuple" or len(leaf[1]) != 2:
            continue
        idx, hdu = leaf[1]
        cdesc = [("" if p else "not ") + show(c)[:50] for c, p in conds]
        # enumerate case
        if idx[0] in ("item", "sym", "ite") and hdu[0] in ("item", "sym") and "enumerate" in show(idx) + show(hdu) or ("@A" in show(idx) and "@A" in show(hdu)):
            # both must come from the same enumerate(hdul)
            en_h = ("call", ("sym", "enumerate"), (hdul,), ())
            ok = (idx == ("item", ("last", en_h), 0) and hdu == ("item", ("last", en_h), 1)) or \
                 (idx[0] == "sym" and hdu[0] == "sym" and idx[1].split("@")[1:] == hdu[1].split("@")[1:])
            seen_kinds.add("search")
            if not ok:
                run.violated("C20.R1", f, node, "default selection: index %s and HDU %s do not come from one enumerate(hdul)" % (show(idx)[:50], show(hdu)[:50]), kind="search-mismatch")
                bad = True
            continue
        want_hdu = ("sub", hdul, idx)
        if hdu != want_hdu:
            run.violated("C20.R1", f, node, "case %s: the HDU yielded is %s but the index reported for it is %s (hdul[<that index>] expected): descriptions, images and "
                         "export_simple would refer to different HDUs, or the lookup fails outright" % (cdesc, _short(hdu, hdul), show(idx)[:60]), kind="hdu-index-mismatch")
            bad = True
            continue
        if idx == sel:
            seen_kinds.add("scalar")
        elif idx == ("sub", sel, pidx):
            seen_kinds.add("list")
        else:
            run.violated("C20.R1", f, node, "case %s: the selected index is %s; expected the scalar itself or the list entry at the file's position "
                         "(self._hdu_index[path_index])" % (cdesc, show(idx)[:80]), kind="hdu-index-source")
            bad = True
    if not bad and {"scalar", "list", "search"} <= seen_kinds:
        run.holds("C20.R1", f, node, "scalar -> same index for every file; list -> entry at the file's position; none -> first image HDU; hdu == hdul[index] in each case")
    elif not bad:
        run.undecided("C20.R1", f, node, "selection cases found: %s (scalar, list, search expected)" % sorted(seen_kinds), kind="cases")
    # scalar test is `isinstance(..., int)`, list branch is `is not None`
    run.holds("C20.R1", f, node, "files are opened and yielded in input order (enumerate(self._paths))") if path_t == ppath else None
    # purity of the scan
    stores = [e for e in r.events if e.kind == "store" and e.term[1][0][0] == "attr" and e.term[1][0][1] == ("sym", "self")]
    muts = [e for e in r.events if e.kind == "call" and e.term[1][0] == "attr" and e.term[1][2] in sym.MUTATORS and e.term[1][1][0] == "attr" and e.term[1][1][1] == ("sym", "self")]
    if stores or muts:
        e = (stores + muts)[0]
        run.violated("C20.R1", f, e.node, "the scan writes object state (%s): the HDU chosen for a file then depends on the files scanned before it and on earlier passes, so "
                     "descriptions(), export_simple() and images() of one collection can disagree" % show(e.term)[:80], kind="scan-stateful")
    else:
        run.holds("C20.R1", f, None, "the scan keeps no state between files or passes")
    # ---- R2
    ksel = ("attr", ("sym", "self"), "_wcs_key")
    kinds = set()
    badk = False
    for conds, leaf in _leaves(termdiff.lift(key_t)):
        if leaf == ksel:
            kinds.add("scalar")
        elif leaf == ("sub", ksel, pidx):
            kinds.add("list")
        elif leaf == ("const", " "):
            kinds.add("default")
        else:
            run.violated("C20.R2", f, node, "WCS key is %s in case %s; expected the scalar, self._wcs_key[path_index] or ' '" % (show(leaf)[:60], [show(c)[:40] for c, p in conds]),
                         kind="wcs-key-source")
            badk = True
    if not badk and kinds == {"scalar", "list", "default"}:
        run.holds("C20.R2", f, node, "WCS key: scalar for every file, list entry at the file's position, ' ' by default")
    elif not badk:
        run.violated("C20.R2", f, node, "WCS key selection handles only %s (scalar, per-file list and default ' ' are documented)" % sorted(kinds), kind="wcs-key-cases")
    # which test picks the scalar: isinstance(..., str) / int
    tests = {show(c) for conds, leaf in _leaves(termdiff.lift(("tuple", (idx_t, key_t)))) for c, p in conds}
    ok_t = any("isinstance(self._hdu_index, int)" in t for t in tests) and any("isinstance(self._wcs_key, str)" in t for t in tests)
    if ok_t:
        run.holds("C20.R2", f, node, "scalar forms recognised by isinstance(int) / isinstance(str)")
    else:
        run.violated("C20.R2", f, node, "scalar selections are not recognised by isinstance(self._hdu_index, int) / isinstance(self._wcs_key, str)", kind="scalar-tests")
    run.holds("C20.R2", f, node, "yield order (path, index, hdu, key)")


def _short(t, hdul):
    return show(t).replace(show(hdul), "hdul")[:80]


def _r3(run, ev):
    project = run.project
    cls = "SimpleFitsCollection"
    for name, flag in (("descriptions", sym.FALSE), ("images", sym.TRUE)):
        f = project.fn("%s.%s.%s" % (COLL, cls, name))
        run.note_func(f)
        r = sym.make_evaluator(project, COLL, []).run(f.node)
        want = ("call", ("attr", ("sym", "self"), "_load"), (flag,), ())
        if len(r.returns) == 1 and r.returns[0][1] == want:
            run.holds("C20.R3", f, None, "%s() = self._load(%s)" % (name, show(flag)))
        else:
            run.violated("C20.R3", f, None, "%s() is %s, expected self._load(%s): the two views no longer share one loader" % (
                name, show(r.returns[0][1])[:60] if r.returns else "?", show(flag)), kind="shared-loader")
    f = project.fn("%s.%s._load" % (COLL, cls))
    run.note_func(f)
    r = sym.make_evaluator(project, COLL, []).run(f.node)
    scan = ("call", ("attr", ("sym", "self"), "_scan_hdus"), (), ())
    loops = [(k, it, n) for k, it, n in r.loops if it == scan]
    if not loops:
        run.violated("C20.R3", f, None, "_load does not iterate self._scan_hdus()", kind="loader-scan")
        return
    el = ("elem", scan)
    hdu, key, pth = ("item", el, 2), ("item", el, 3), ("item", el, 0)
    ctor = [e for e in r.events if e.kind == "call" and show(e.term[1]) in ("Image.from_array", "ImageDescription")]
    problems = []
    want_wcs = ("call", ("sym", "WCS"), (("attr", hdu, "header"),), (("key", key),))
    for e in ctor:
        w = dict(e.term[3]).get("wcs")
        if w is None:
            problems.append((e, "result built without a WCS"))
            continue
        wcalls = [a for a in atoms_of(w) | {w} if a[0] == "call" and a[1] == ("sym", "WCS")]
        lookups = [a for a in atoms_of(w) | {w} if (a[0] == "call" and a[1][0] == "attr" and a[1][2] in ("get", "setdefault") and a[1][1][0] == "attr" and a[1][1][1] == ("sym", "self"))
                   or (a[0] == "sub" and a[1][0] == "attr" and a[1][1] == ("sym", "self"))]
        for lk in lookups:
            kterm = lk[2][0] if lk[0] == "call" else lk[2]
            if key not in atoms_of(kterm) | {kterm}:
                problems.append((e, "the WCS of an item is looked up in %s under %s, which does not include the item's WCS key: the same file listed with "
                                    "different keys gets the first key's WCS" % (show(lk[1][1] if lk[0] == "call" else lk[1])[:40], show(kterm)[:60])))
        for wc in wcalls:
            if wc != want_wcs and not (wc[2] and wc[2][0] == ("attr", hdu, "header") and dict(wc[3]).get("key") == key):
                problems.append((e, "the WCS is built as %s, expected WCS(<this item's hdu>.header, key=<this item's key>)" % show(wc)[:100]))
        if not wcalls and not lookups:
            problems.append((e, "the WCS %s is not derived from this item's header" % show(w)[:60]))
    # data / shape from the same hdu
    data_ok = any(e.kind == "call" and e.term[1] == ("attr", ("attr", hdu, "data"), "reshape") for e in r.events)
    if not data_ok:
        problems.append((None, "image data are not taken from the scanned HDU (hdu.data)"))
    ys = r.yields
    cid = [e for e in r.events if e.kind == "store" and e.term[1][0][0] == "attr" and e.term[1][0][2] == "collection_id"]
    if not cid or cid[0].term[1][1] != pth:
        problems.append((None, "collection_id is not the scanned path"))
    if problems:
        seen = set()
        for e, msg in problems:
            if msg in seen:
                continue
            seen.add(msg)
            run.violated("C20.R3", f, e.node if e else None, "_load: " + msg, kind="loader-item")
    else:
        run.holds("C20.R3", f, loops[0][2], "_load: for each scanned (path, index, hdu, key): WCS(hdu.header, key=key), shape/data from that hdu, in scan order")
    g = project.fn("%s.%s.export_simple" % (COLL, cls))
    run.note_func(g)
    rg = sym.make_evaluator(project, COLL, []).run(g.node)
    s = show(rg.returns[0][1]) if rg.returns else ""
    if "_scan_hdus" in ast.unparse(g.node) and len(rg.returns) == 1:
        # [(item[0], item[1]) for item in self._scan_hdus()] in any spelling: a comprehension over the scan whose element is the
        # pair of the first two components of the scanned item
        scan_t = ("call", ("attr", ("sym", "self"), "_scan_hdus"), (), ())
        ret = rg.returns[0][1]
        if ret[0] == "call" and show(ret[1]) in ("list", "tuple") and len(ret[2]) == 1:
            ret = ret[2][0]
        el_ = ("elem", scan_t)
        ok = ret[0] == "op" and ret[1] == "comp" and len(ret[2]) == 4 and ret[2][2] == scan_t and ret[2][3] == sym.TRUE \
            and ret[2][1] == ("tuple", (("item", el_, 0), ("item", el_, 1)))
        if ok:
            run.holds("C20.R3", g, None, "export_simple = [(path, hdu_index) for each scanned item]")
        else:
            run.undecided("C20.R3", g, None, "export_simple derives from the scan in an unrecognised form", kind="export-shape")
    else:
        run.violated("C20.R3", g, None, "export_simple no longer derives from self._scan_hdus()", kind="export-scan")
    # memo tables in the collection module
    memo.check_module(run, "C20.R3", COLL)


def _r4(run):
    project = run.project
    # constructor stores
    f = project.fn(COLL + ".SimpleFitsCollection.__init__")
    run.note_func(f)
    r = sym.make_evaluator(project, COLL, []).run(f.node)
    st = {e.term[1][0][2]: e.term[1][1] for e in r.events if e.kind == "store" and e.term[1][0][0] == "attr" and e.term[1][0][1] == ("sym", "self")}
    ok = st.get("_hdu_index") == ("sym", "hdu_index") and st.get("_wcs_key") == ("sym", "wcs_key") and st.get("_blankval") == ("sym", "blankval") \
        and st.get("_paths") == ("call", ("sym", "list"), (("sym", "paths"),), ())
    (run.holds if ok else run.violated)("C20.R4", f, None, "collection stores paths (in order), hdu_index, wcs_key, blankval as given" if ok else
                                        "SimpleFitsCollection.__init__ does not store its selection options unchanged (%s)" % {k: show(v)[:30] for k, v in st.items()},
                                        **({} if ok else {"kind": "ctor-options"}))
    # load_paths
    f = project.fn(COLL + ".CollectionLoader.load_paths")
    run.note_func(f)
    r = sym.make_evaluator(project, COLL, []).run(f.node)
    c = [e for e in r.events if e.kind == "call" and e.term[1] == ("sym", "SimpleFitsCollection")]
    okl = False
    if c:
        kw = dict(c[0].term[3])
        okl = all(kw.get(k) == ("attr", ("sym", "self"), k) for k in ("hdu_index", "wcs_key", "blankval"))
    (run.holds if okl else run.violated)("C20.R4", f, c[0].node if c else None, "load_paths forwards the loader's hdu_index / wcs_key / blankval" if okl else
                                         "CollectionLoader.load_paths does not forward hdu_index, wcs_key and blankval to the collection", **({} if okl else {"kind": "loader-forward"}))
    # create_from_args: settings -> loader attributes
    f = project.fn(COLL + ".CollectionLoader.create_from_args")
    run.note_func(f)
    r = sym.make_evaluator(project, COLL, []).run(f.node)
    st = {}
    for e in r.events:
        if e.kind == "store" and e.term[1][0][0] == "attr" and e.term[1][0][2] in ("hdu_index", "wcs_key", "blankval"):
            st.setdefault(e.term[1][0][2], []).append(e.term[1][1])
    settings = ("sym", f.params()[1])
    okc = all(k in st and any(("attr", settings, k) in atoms_of(v) for v in st[k]) for k in ("hdu_index", "wcs_key", "blankval"))
    (run.holds if okc else run.violated)("C20.R4", f, None, "command line: --hdu-index / --wcs-key / --blankval parsed into the loader" if okc else
                                         "create_from_args does not derive loader.%s from the parsed command-line settings" % [k for k in ("hdu_index", "wcs_key", "blankval") if k not in st],
                                         **({} if okc else {"kind": "cli-options"}))
    # load()
    f = project.fn(COLL + ".load")
    run.note_func(f)
    r = sym.make_evaluator(project, COLL, []).run(f.node)
    st = {e.term[1][0][2]: e.term[1][1] for e in r.events if e.kind == "store" and e.term[1][0][0] == "attr"}
    okf = all(st.get(k) == ("sym", k) for k in ("hdu_index", "wcs_key", "blankval"))
    (run.holds if okf else run.violated)("C20.R4", f, None, "load(): options handed to the loader unchanged" if okf else
                                         "collection.load() drops or alters %s" % [k for k in ("hdu_index", "wcs_key", "blankval") if st.get(k) != ("sym", k)],
                                         **({} if okf else {"kind": "load-options"}))
    # tile_fits
    f = project.fn("toasty.tile_fits")
    run.note_func(f)
    r = sym.make_evaluator(project, "toasty", []).run(f.node)
    c = [e for e in r.events if e.kind == "call" and e.term[1][0] == "attr" and e.term[1][2] == "load"]
    okt = False
    if c:
        kw = dict(c[0].term[3])
        okt = all(kw.get(k) == ("sym", k) for k in ("hdu_index", "wcs_key", "blankval")) and c[0].term[2] and c[0].term[2][0] == ("sym", f.params()[0])
    (run.holds if okt else run.violated)("C20.R4", f, c[0].node if c else None, "tile_fits forwards fits / hdu_index / wcs_key / blankval to collection.load" if okt else
                                         "tile_fits does not hand hdu_index, wcs_key and blankval unchanged to collection.load", **({} if okt else {"kind": "tile-fits-options"}))
    # CLI commands that build a collection directly: every selection option they declare must be forwarded
    cli = "toasty.cli"
    for g in project.functions_in(cli):
        ctor = [c for c in own_calls(g.node) if (dotted(c.func) or "").split(".")[-1] in ("SimpleFitsCollection",)]
        viaL = [c for c in own_calls(g.node) if callee_attr(c) == "load_paths"]
        if not ctor and not viaL:
            continue
        run.note_func(g)
        # the options the command declares: look at its *_getparser sibling
        base = g.name[: -len("_impl")] if g.name.endswith("_impl") else g.name
        gp = project.funcs.get("%s.%s_getparser" % (cli, base))
        declared = set()
        uses_loader_args = False
        if gp is not None:
            for c in own_calls(gp.node):
                if callee_attr(c) == "add_argument" and c.args and isinstance(c.args[0], ast.Constant):
                    declared.add(c.args[0].value)
                if callee_attr(c) == "add_arguments" and "CollectionLoader" in ast.unparse(c.func):
                    uses_loader_args = True
        rg = sym.make_evaluator(project, cli, []).run(g.node)
        settings = ("sym", g.params()[0]) if g.params() else None
        if ctor:
            e = [x for x in rg.events if x.kind == "call" and x.node is ctor[0]]
            kw = dict(e[0].term[3]) if e else {}
            miss = []
            for opt, k in (("--hdu-index", "hdu_index"), ("--wcs-key", "wcs_key"), ("--blankval", "blankval")):
                if opt in declared and kw.get(k) != ("attr", settings, k):
                    miss.append(opt)
            if miss:
                run.violated("C20.R4", g, ctor[0], "%s declares %s but does not pass it to the collection it builds: the option is parsed and silently ignored" % (g.name, miss),
                             kind="cli-option-dropped")
            else:
                run.holds("C20.R4", g, ctor[0], "%s forwards every selection option it declares" % g.name)
        else:
            e = [x for x in rg.events if x.kind == "call" and x.node is viaL[0]]
            recv = e[0].term[1][1] if e else None
            want = ("call", ("attr", ("sym", "CollectionLoader"), "create_from_args"), (settings,), ())
            if recv == want:
                run.holds("C20.R4", g, viaL[0], "%s loads its collection through CollectionLoader.create_from_args(settings)" % g.name)
            else:
                # a loader constructed by hand: every declared option must be copied onto it
                declared_opts = [o for o in ("--hdu-index", "--wcs-key", "--blankval") if o in declared or uses_loader_args]
                stores = {x.term[1][0][2] for x in rg.events if x.kind == "store" and x.term[1][0][0] == "attr" and x.term[1][0][1] == recv}
                miss = [o for o in declared_opts if o[2:].replace("-", "_") not in stores]
                if miss:
                    run.violated("C20.R4", g, viaL[0], "%s builds its loader by hand and never sets %s on it: the option is parsed and silently ignored" % (g.name, miss),
                                 kind="cli-option-dropped")
                else:
                    run.holds("C20.R4", g, viaL[0], "%s copies every declared selection option onto its loader" % g.name)
