"""C20 - Each input file contributes exactly the HDU and WCS solution the user selected.

R1 selection consistency in the scan: on every path the HDU object yielded is hdul[<index yielded>]
   (or both come from one enumerate(hdul)); scalar applies to all files, a list is subscripted by the
   file's position; the scan keeps no state between files or passes
R2 the same for the WCS key (scalar / per-file / default ' ')
R3 shared loader: descriptions(), images() and export_simple() all derive from the one scan, in input
   order; the WCS of an item is built from that item's HDU header and *its* key
R4 option flow: load(), tile_fits() and the command-line loaders hand the user's hdu_index / wcs_key /
   blankval unchanged to the collection
"""
import ast

from sa import sym, termdiff, boolalg
from sa.sym import show, num, num_value, atoms_of
from sa.model import dotted, own_calls, own_nodes, callee_attr
from . import memo, common

COLL = "toasty.collection"

EXPLANATION = (
    "SimpleFitsCollection._scan_hdus is evaluated abstractly; its single yield is a tuple of if-then-else terms over the "
    "selection form (int / list / None; str / list / None). Lifting the conditions gives one (index, hdu, key) triple per "
    "case, and each must satisfy hdu == hdul[index] with index = the scalar, the list entry at the file's position, or the "
    "position found by enumerate(hdul); likewise for the key. The scan must not write object state. Both public views and "
    "export_simple must iterate that scan; the WCS handed to each result must be WCS(<that item's hdu>.header, key=<that "
    "item's key>) of the current iteration (a remembered WCS must be keyed by the key too). Option forwarding is compared "
    "argument by argument from the entry points to the collection constructor."
)

MANIFEST = {
    "technique": "static analysis: case-lifted canonical terms of the generator's yield (selection consistency per case, helpers inlined), purity of the scan, shared-loader and argument-forwarding (dead/unused option) checks by parameter binding, memo-key dependence analysis; sequence-preservation of the path list and CLI option lists; finite-domain agreement of description and image shape over all axis masks; constructor state (plain fields or option objects with __call__) substituted into the scan; index/HDU consistency decided on positions (constants, negative positions, enumerate over a slice with start); class-object stores; default image-HDU search predicate evaluated for 0..5 axes; paths argument at every collection-building call site is not a sorted / de-duplicated / filtered / sliced version of the caller's list; tautology check on the path conditions of the loader's yields (one item per scanned input), no early loop exit",
    "text": "Decides for every selection form (scalar, per-file list, default) that the yielded HDU is the one at the yielded index, that descriptions/images/export share one scan and build each WCS from its own item, and that user options reach the collection unchanged through the Python API and the CLI loaders.",
    "note": "Trusted: astropy.io.fits HDUList indexing and WCS(header, key=...). Not decided: what astropy reads from a given file.",
}


def run(run):
    run.explanation = EXPLANATION
    for r, n in (("C20.R1", 3), ("C20.R2", 3), ("C20.R3", 4), ("C20.R4", 4), ("C20.R5", 1), ("C20.R6", 1)):
        run.floor(r, n)
    project = run.project
    ev = sym.make_evaluator(project, COLL, [], inline_local=True, no_inline=("_scan_hdus", "_load", "descriptions", "images", "export_simple"))
    ev.self_class = COLL + ".SimpleFitsCollection"      # private selection helpers of the collection belong to the scan
    _r1_r2(run, ev)
    _r3(run, ev)
    _r4(run)
    paths_at_call_sites(run)
    _r5_shape_agreement(run)
    _r6_one_item_per_input(run)


def _self_calls(t):
    """Calls of a callable stored on the object (`self._option_for(i)`): an object or closure the rule has not looked into."""
    out = []
    if isinstance(t, tuple):
        if t and t[0] == "call" and len(t) == 4 and t[1][0] == "attr" and t[1][1] == ("sym", "self"):
            out.append(t)
        for x in t:
            if isinstance(x, tuple):
                out.extend(_self_calls(x))
    return out


def _leaves(t, conds=()):
    if t[0] == "ite":
        yield from _leaves(t[2], conds + ((t[1], True),))
        yield from _leaves(t[3], conds + ((t[1], False),))
    else:
        yield conds, t


def _r1_r2(run, ev):
    project = run.project
    f = project.fn(COLL + ".SimpleFitsCollection._scan_hdus")
    run.note_func(f)
    # the object as its constructor leaves it: plain fields (`self._hdu_index = hdu_index`) or small option objects built from the
    # constructor's arguments (their fields are followed, calling them runs their __call__)
    SELF = ("sym", "self")
    init = project.fn(COLL + ".SimpleFitsCollection.__init__")
    facts = {}
    try:
        ev.model_objects = True
        ri = ev.run(init.node)
        for k, v in (ri.env or {}).items():
            if isinstance(k, tuple) and k[0] == "attr" and k[1] == SELF and k[2] != "_paths":
                facts[k] = v
        for osym, (cq, fields) in ri.objects.items():
            facts.update(fields)
    except Exception:
        facts = {}
    r = ev.run(f.node, env=facts)
    if len(r.yields) != 1:
        run.undecided("C20.R1", f, None, "the scan has %d yield sites" % len(r.yields), kind="yield-sites")
        return
    pc, y, node = r.yields[0]
    if y[0] != "tuple" or len(y[1]) != 4:
        run.undecided("C20.R1", f, node, "the scan does not yield (path, hdu_index, hdu, wcs_key)", kind="yield-shape")
        return
    path_t, idx_t, hdu_t, key_t = y[1]
    # loop structure: for path_index, fits_path in enumerate(self._paths)
    paths = ("attr", ("sym", "self"), "_paths")
    en = ("call", ("sym", "enumerate"), (paths,), ())
    pidx, ppath = ("op", "index", (paths,)), ("elem", paths)        # what `for i, p in enumerate(self._paths)` binds
    if path_t != ppath:
        run.violated("C20.R1", f, node, "the yielded path is %s, not the current element of self._paths (input order)" % show(path_t)[:60], kind="path-order")
    # the opened file
    opens = [e for e in r.events if e.kind == "with" and e.term[0] == "call" and show(e.term[1]).endswith("fits.open")]
    if not opens or opens[0].term[2][0] != ppath:
        run.violated("C20.R1", f, node, "the HDU list is not opened from the current path", kind="open-path")
        return
    hdul = ("op", "enter", (opens[0].term,))
    # the user's selection: the field holding it, or (when the constructor hands it to an option object) the constructor's parameter
    sel = facts.get(("attr", SELF, "_hdu_index"), ("sym", "hdu_index") if ("attr", SELF, "_hdu_index") not in facts and facts and "hdu_index" in init.params() else ("attr", SELF, "_hdu_index"))
    cases = list(_leaves(termdiff.lift(("tuple", (idx_t, hdu_t)))))
    seen_kinds = set()
    bad = False
    for conds, leaf in cases:
        if leaf[0] != "tuple" or len(leaf[1]) != 2:
            continue
        idx, hdu = leaf[1]
        cdesc = [("" if p else "not ") + show(c)[:50] for c, p in conds]
        # combinations of arms that cannot occur together (a helper returned None exactly when the caller's `is None` test is true)
        rows = boolalg.table([boolalg.conj(list(conds))], total_order=False)
        if rows is not None and not any(v[0] for _e, v in rows):
            continue
        # enumerate case
        if idx[0] in ("item", "sym", "ite") and hdu[0] in ("item", "sym") and "enumerate" in show(idx) + show(hdu) or ("@A" in show(idx) and "@A" in show(hdu)):
            # both must come from the same enumerate over the HDU list, counting from the position of its first element
            ok = None
            why = "do not come from one enumerate(hdul)"
            if idx[0] == "item" and hdu[0] == "item" and idx[1] == hdu[1] and idx[2] == 0 and hdu[2] == 1 and idx[1][0] in ("last", "elem") \
                    and idx[1][1][0] == "call" and idx[1][1][1] == ("sym", "enumerate") and idx[1][1][2]:
                en = idx[1][1]
                seq = en[2][0]
                start = en[2][1] if len(en[2]) > 1 else dict(en[3]).get("start", num(0))
                first = None
                if seq == hdul:
                    first = num(0)
                elif seq[0] == "sub" and seq[1] == hdul and seq[2][0] == "slice" and seq[2][2] == sym.NONE and seq[2][3] == sym.NONE:
                    first = num(0) if seq[2][1] == sym.NONE else seq[2][1]
                if first is not None and num_value(first) is not None and num_value(start) is not None:
                    ok = num_value(first) == num_value(start)
                    why = "come from enumerate(%s%s): the search walks the HDUs from position %s but counts from %s, so the index reported for the HDU found is off by %s" % (
                        _short(seq, hdul), "" if len(en[2]) < 2 and not en[3] else ", start=%s" % show(start), show(first), show(start), num_value(first) - num_value(start))
            elif idx[0] == "sym" and hdu[0] == "sym":
                ok = idx[1].split("@")[1:] == hdu[1].split("@")[1:]
            seen_kinds.add("search")
            if ok is False:
                run.violated("C20.R1", f, node, "default selection: index %s and HDU %s %s" % (show(idx)[:50], show(hdu)[:50], why), kind="search-mismatch")
                bad = True
            elif ok is None:
                run.undecided("C20.R1", f, node, "default selection: cannot relate index %s and HDU %s" % (show(idx)[:60], show(hdu)[:60]), kind="search-shape")
                bad = True
            continue
        # hdu == hdul[idx], up to the spelling of a constant position (hdul[0], hdul[-1] == hdul[len(hdul) - 1])
        pos = hdu[2] if (hdu[0] in ("sub", "item") and hdu[1] == hdul) else None
        if isinstance(pos, int):
            pos = num(pos)
        same = pos is not None and (pos == idx or (num_value(pos) is not None and num_value(idx) is not None and num_value(pos) == num_value(idx))
                                    or (num_value(pos) is not None and num_value(pos) < 0 and idx == sym.add(("call", ("sym", "len"), (hdul,), ()), pos)))
        if same and num_value(pos) is not None:
            seen_kinds.add("search")          # a fixed position: part of the default search (first / last HDU)
            continue
        want_hdu = ("sub", hdul, idx)
        if hdu != want_hdu and not same:
            run.violated("C20.R1", f, node, "case %s: the HDU yielded is %s but the index reported for it is %s (hdul[<that index>] expected): descriptions, images and "
                         "export_simple would refer to different HDUs, or the lookup fails outright" % (cdesc, _short(hdu, hdul), show(idx)[:60]), kind="hdu-index-mismatch")
            bad = True
            continue
        if idx == sel:
            seen_kinds.add("scalar")
        elif idx == ("sub", sel, pidx):
            seen_kinds.add("list")
        elif common.unfollowed_project_calls(project, idx) or _self_calls(idx):
            run.undecided("C20.R1", f, node, "case %s: the selected index is %s, computed by something that is not followed" % (cdesc, show(idx)[:80]), kind="hdu-index-opaque")
            bad = True
        else:
            run.violated("C20.R1", f, node, "case %s: the selected index is %s; expected the scalar itself or the list entry at the file's position "
                         "(self._hdu_index[path_index])" % (cdesc, show(idx)[:80]), kind="hdu-index-source")
            bad = True
    if not bad and {"scalar", "list", "search"} <= seen_kinds:
        run.holds("C20.R1", f, node, "scalar -> same index for every file; list -> entry at the file's position; none -> first image HDU; hdu == hdul[index] in each case")
    elif not bad:
        run.undecided("C20.R1", f, node, "selection cases found: %s (scalar, list, search expected)" % sorted(seen_kinds), kind="cases")
    # scalar test is `isinstance(..., int)`, list branch is `is not None`
    run.holds("C20.R1", f, node, "files are opened and yielded in input order (enumerate(self._paths))") if path_t == ppath else None
    default_search_predicate(run, f, r)
    # purity of the scan
    stores = [e for e in r.events if e.kind == "store" and e.term[1][0][0] == "attr" and e.term[1][0][1] == ("sym", "self")]
    muts = [e for e in r.events if e.kind == "call" and e.term[1][0] == "attr" and e.term[1][2] in sym.MUTATORS and e.term[1][1][0] == "attr" and e.term[1][1][1] == ("sym", "self")]
    if stores or muts:
        e = (stores + muts)[0]
        run.violated("C20.R1", f, e.node, "the scan writes object state (%s): the HDU chosen for a file then depends on the files scanned before it and on earlier passes, so "
                     "descriptions(), export_simple() and images() of one collection can disagree" % show(e.term)[:80], kind="scan-stateful")
    else:
        run.holds("C20.R1", f, None, "the scan keeps no state between files or passes")
    # ---- R2
    ksel = facts.get(("attr", SELF, "_wcs_key"), ("sym", "wcs_key") if ("attr", SELF, "_wcs_key") not in facts and facts and "wcs_key" in init.params() else ("attr", SELF, "_wcs_key"))
    kinds = set()
    badk = False
    for conds, leaf in _leaves(termdiff.lift(key_t)):
        if leaf == ksel:
            kinds.add("scalar")
        elif leaf == ("sub", ksel, pidx):
            kinds.add("list")
        elif leaf == ("const", " "):
            kinds.add("default")
        elif common.unfollowed_project_calls(project, leaf) or _self_calls(leaf):
            run.undecided("C20.R2", f, node, "WCS key is %s in case %s: computed by something that is not followed" % (show(leaf)[:60], [show(c)[:40] for c, p in conds]),
                          kind="wcs-key-opaque")
            badk = True
        else:
            run.violated("C20.R2", f, node, "WCS key is %s in case %s; expected the scalar, self._wcs_key[path_index] or ' '" % (show(leaf)[:60], [show(c)[:40] for c, p in conds]),
                         kind="wcs-key-source")
            badk = True
    if not badk and kinds == {"scalar", "list", "default"}:
        run.holds("C20.R2", f, node, "WCS key: scalar for every file, list entry at the file's position, ' ' by default")
    elif not badk:
        run.violated("C20.R2", f, node, "WCS key selection handles only %s (scalar, per-file list and default ' ' are documented)" % sorted(kinds), kind="wcs-key-cases")
    # which test picks the scalar: isinstance(..., str) / int
    tests = {show(c) for conds, leaf in _leaves(termdiff.lift(("tuple", (idx_t, key_t)))) for c, p in conds}
    ok_t = any("isinstance(%s, int)" % show(sel) in t for t in tests) and any("isinstance(%s, str)" % show(ksel) in t for t in tests)
    if ok_t:
        run.holds("C20.R2", f, node, "scalar forms recognised by isinstance(int) / isinstance(str)")
    else:
        run.violated("C20.R2", f, node, "scalar selections are not recognised by isinstance(self._hdu_index, int) / isinstance(self._wcs_key, str)", kind="scalar-tests")
    run.holds("C20.R2", f, node, "yield order (path, index, hdu, key)")


def _short(t, hdul):
    return show(t).replace(show(hdul), "hdul")[:80]


def _r3(run, ev):
    project = run.project
    cls = "SimpleFitsCollection"
    for name, flag in (("descriptions", sym.FALSE), ("images", sym.TRUE)):
        f = project.fn("%s.%s.%s" % (COLL, cls, name))
        run.note_func(f)
        r = sym.make_evaluator(project, COLL, []).run(f.node)
        want = ("call", ("attr", ("sym", "self"), "_load"), (flag,), ())
        if len(r.returns) == 1 and r.returns[0][1] == want:
            run.holds("C20.R3", f, None, "%s() = self._load(%s)" % (name, show(flag)))
        else:
            run.violated("C20.R3", f, None, "%s() is %s, expected self._load(%s): the two views no longer share one loader" % (
                name, show(r.returns[0][1])[:60] if r.returns else "?", show(flag)), kind="shared-loader")
    f = project.fn("%s.%s._load" % (COLL, cls))
    run.note_func(f)
    # the loader with its private steps (header fixes, geometry analysis, result makers) spliced in
    ev_load = sym.make_evaluator(project, COLL, [], inline_local=True)
    ev_load.self_class = COLL + "." + cls
    ev_load.inline_resolved = True
    ev_load.no_inline = ("_scan_hdus", "from_array", "from_array_info")
    r = ev_load.run(f.node)
    scan = ("call", ("attr", ("sym", "self"), "_scan_hdus"), (), ())
    loops = [(k, it, n) for k, it, n in r.loops if it == scan]
    if not loops:
        run.violated("C20.R3", f, None, "_load does not iterate self._scan_hdus()", kind="loader-scan")
        return
    el = ("elem", scan)
    hdu, key, pth = ("item", el, 2), ("item", el, 3), ("item", el, 0)
    ctor = [e for e in r.events if e.kind == "call" and show(e.term[1]) in ("Image.from_array", "ImageDescription")]
    problems = []
    want_wcs = ("call", ("sym", "WCS"), (("attr", hdu, "header"),), (("key", key),))
    for e in ctor:
        w = dict(e.term[3]).get("wcs")
        if w is None:
            problems.append((e, "result built without a WCS"))
            continue
        wcalls = [a for a in atoms_of(w) | {w} if a[0] == "call" and a[1] == ("sym", "WCS")]
        lookups = [a for a in atoms_of(w) | {w} if (a[0] == "call" and a[1][0] == "attr" and a[1][2] in ("get", "setdefault") and a[1][1][0] == "attr" and a[1][1][1] == ("sym", "self"))
                   or (a[0] == "sub" and a[1][0] == "attr" and a[1][1] == ("sym", "self"))]
        for lk in lookups:
            kterm = lk[2][0] if lk[0] == "call" else lk[2]
            if key not in atoms_of(kterm) | {kterm}:
                problems.append((e, "the WCS of an item is looked up in %s under %s, which does not include the item's WCS key: the same file listed with "
                                    "different keys gets the first key's WCS" % (show(lk[1][1] if lk[0] == "call" else lk[1])[:40], show(kterm)[:60])))
        for wc in wcalls:
            if wc != want_wcs and not (wc[2] and wc[2][0] == ("attr", hdu, "header") and dict(wc[3]).get("key") == key):
                problems.append((e, "the WCS is built as %s, expected WCS(<this item's hdu>.header, key=<this item's key>)" % show(wc)[:100]))
        if not wcalls and not lookups:
            problems.append((e, "the WCS %s is not derived from this item's header" % show(w)[:60]))
    # data / shape from the same hdu
    data_ok = any(e.kind == "call" and e.term[1] == ("attr", ("attr", hdu, "data"), "reshape") for e in r.events)
    if not data_ok:
        problems.append((None, "image data are not taken from the scanned HDU (hdu.data)"))
    ys = r.yields
    cid = [e for e in r.events if e.kind == "store" and e.term[1][0][0] == "attr" and e.term[1][0][2] == "collection_id"]
    if not cid or cid[0].term[1][1] != pth:
        problems.append((None, "collection_id is not the scanned path"))
    if problems:
        seen = set()
        for e, msg in problems:
            if msg in seen:
                continue
            seen.add(msg)
            run.violated("C20.R3", f, e.node if e else None, "_load: " + msg, kind="loader-item")
    else:
        run.holds("C20.R3", f, loops[0][2], "_load: for each scanned (path, index, hdu, key): WCS(hdu.header, key=key), shape/data from that hdu, in scan order")
    g = project.fn("%s.%s.export_simple" % (COLL, cls))
    run.note_func(g)
    rg = sym.make_evaluator(project, COLL, []).run(g.node)
    s = show(rg.returns[0][1]) if rg.returns else ""
    if "_scan_hdus" in ast.unparse(g.node) and len(rg.returns) == 1:
        # [(item[0], item[1]) for item in self._scan_hdus()] in any spelling: a comprehension over the scan whose element is the
        # pair of the first two components of the scanned item
        scan_t = ("call", ("attr", ("sym", "self"), "_scan_hdus"), (), ())
        ret = rg.returns[0][1]
        if ret[0] == "call" and show(ret[1]) in ("list", "tuple") and len(ret[2]) == 1:
            ret = ret[2][0]
        el_ = ("elem", scan_t)
        ok = ret[0] == "op" and ret[1] == "comp" and len(ret[2]) == 4 and ret[2][2] == scan_t and ret[2][3] == sym.TRUE \
            and ret[2][1] == ("tuple", (("item", el_, 0), ("item", el_, 1)))
        if ok:
            run.holds("C20.R3", g, None, "export_simple = [(path, hdu_index) for each scanned item]")
        else:
            run.undecided("C20.R3", g, None, "export_simple derives from the scan in an unrecognised form", kind="export-shape")
    else:
        run.violated("C20.R3", g, None, "export_simple no longer derives from self._scan_hdus()", kind="export-scan")
    # memo tables in the collection module
    memo.check_module(run, "C20.R3", COLL)


CONVERSIONS = ("int", "float", "str", "os.fspath", "fspath")


def _seq_view(t, X, conv=False):
    """How the sequence term *t* relates to the sequence *X*: "same" = same items, same order, same multiplicity (through
    list()/tuple(), an element-wise comprehension without a condition, map(), or -- for a scalar-or-list argument -- the
    `[X] if isinstance(X, str) else X` wrap); "altered" = built from X in some other way (filtered, de-duplicated, sorted,
    sliced, items rewritten); "absent" = does not depend on X.  With *conv*, items may go through int()/float()/str()."""
    if t == X:
        return "same"
    if t[0] in ("list", "tuple") and len(t[1]) == 1 and t[1][0] == X:
        return "same"                                   # [X]: a scalar wrapped into a one-element list
    if t[0] == "call" and t[1][0] == "sym" and t[1][1] in ("list", "tuple") and len(t[2]) == 1 and not t[3]:
        return _seq_view(t[2][0], X, conv)
    if t[0] == "call" and t[1] == ("sym", "map") and len(t[2]) == 2 and not t[3]:
        inner = _seq_view(t[2][1], X, conv)
        if inner == "same" and not (conv and show(t[2][0]) in CONVERSIONS):
            return "altered"
        return inner
    if t[0] == "op" and t[1] == "comp":
        kind_, elt, it, cnd = t[2][:4]
        inner = _seq_view(it, X, conv)
        if inner != "same":
            return inner
        if cnd != sym.TRUE:
            return "altered"
        e = ("elem", it)
        if elt == e:
            return "same"
        if elt[0] == "call" and len(elt[2]) == 1 and elt[2][0] == e and not elt[3] and show(elt[1]) in CONVERSIONS and (conv or show(elt[1]) in ("str", "os.fspath", "fspath")):
            return "same"
        return "altered"
    if t[0] == "ite":
        a, b = _seq_view(t[2], X, conv), _seq_view(t[3], X, conv)
        if a == b:
            return a
        return "altered" if "altered" in (a, b) else ("same" if "absent" not in (a, b) else "altered")
    return "altered" if X in _subterms(t) else "absent"



def _r4(run):
    project = run.project
    # constructor stores
    f = project.fn(COLL + ".SimpleFitsCollection.__init__")
    run.note_func(f)
    ev0 = sym.make_evaluator(project, COLL, [], inline_local=True)
    ev0.model_objects = True          # an option may be wrapped in a small object of the module: its fields count as stored state
    r = ev0.run(f.node)
    st = {e.term[1][0][2]: e.term[1][1] for e in r.events if e.kind == "store" and e.term[1][0][0] == "attr" and e.term[1][0][1] == ("sym", "self")}
    kept = list(st.values())
    for osym, (cq, fields) in r.objects.items():
        kept += list(fields.values())
    problems = []
    opaque = []
    for pname in ("hdu_index", "wcs_key", "blankval"):
        P = ("sym", pname)
        if P in kept:
            continue
        inside = [v for v in kept if P in _subterms(v)]
        if inside and all(common.unfollowed_project_calls(project, v) for v in inside):
            opaque.append((pname, inside[0]))
        elif inside:
            problems.append("%s is stored as %s" % (pname, show(inside[0])[:50]))
        else:
            problems.append("%s is not stored" % pname)
    if st.get("_paths") != ("call", ("sym", "list"), (("sym", "paths"),), ()):
        problems.append("_paths is %s" % show(st.get("_paths"))[:40])
    if problems:
        run.violated("C20.R4", f, None, "SimpleFitsCollection.__init__ does not keep its selection options unchanged: %s" % "; ".join(problems), kind="ctor-options")
    elif opaque:
        run.undecided("C20.R4", f, None, "SimpleFitsCollection.__init__ hands %s to %s, which is not followed" % (opaque[0][0], show(opaque[0][1])[:60]), kind="ctor-options-opaque")
    else:
        run.holds("C20.R4", f, None, "collection keeps paths (in order), hdu_index, wcs_key, blankval as given (plain fields or fields of its option objects)")
    # load_paths
    f = project.fn(COLL + ".CollectionLoader.load_paths")
    run.note_func(f)
    r = sym.make_evaluator(project, COLL, []).run(f.node)
    c = [e for e in r.events if e.kind == "call" and e.term[1] == ("sym", "SimpleFitsCollection")]
    okl = False
    if c:
        kw = dict(c[0].term[3])
        okl = all(kw.get(k) == ("attr", ("sym", "self"), k) for k in ("hdu_index", "wcs_key", "blankval"))
        pths = c[0].term[2][0] if c[0].term[2] else kw.get("paths")
        how = _seq_view(pths, ("sym", f.params()[1])) if pths is not None else "absent"
        if how != "same":
            run.violated("C20.R4", f, c[0].node, "load_paths hands the collection %s instead of the paths it was given, in order and with repeats: per-file hdu_index / wcs_key "
                         "lists no longer pair up with the files" % show(pths)[:80], kind="paths-" + how)
    (run.holds if okl else run.violated)("C20.R4", f, c[0].node if c else None, "load_paths forwards the loader's hdu_index / wcs_key / blankval" if okl else
                                         "CollectionLoader.load_paths does not forward hdu_index, wcs_key and blankval to the collection", **({} if okl else {"kind": "loader-forward"}))
    # create_from_args: settings -> loader attributes
    f = project.fn(COLL + ".CollectionLoader.create_from_args")
    run.note_func(f)
    ev_l = sym.make_evaluator(project, COLL, [], inline_local=True)
    ev_l.self_class = COLL + ".CollectionLoader"       # parsing helpers of the loader are part of the flow
    ev_l.unroll = True                                 # also when they are driven by a literal (option, parser) table
    r = ev_l.run(f.node)
    st = {}
    for e in r.events:
        if e.kind == "store" and e.term[1][0][0] == "attr" and e.term[1][0][2] in ("hdu_index", "wcs_key", "blankval"):
            st.setdefault(e.term[1][0][2], []).append(e.term[1][1])
    settings = ("sym", f.params()[1])
    okc = all(k in st and any(("attr", settings, k) in atoms_of(v) for v in st[k]) for k in ("hdu_index", "wcs_key", "blankval"))
    # ... and unchanged: each stored value is the option text itself, its items split at commas (all of them, in order), or the
    # first of them, up to int()/float() conversion
    for k in ("hdu_index", "wcs_key"):
        src = ("attr", settings, k)
        split = ("call", ("attr", src, "split"), (("const", ","),), ())
        for v in st.get(k, []):
            leaves = [t for _c, t in _leaves(v)]
            for t in leaves:
                if t[0] == "call" and len(t[2]) == 1 and not t[3] and show(t[1]) in CONVERSIONS:
                    t = t[2][0]
                if t[0] in ("item", "sub") and _seq_view(t[1], split, conv=True) == "same":
                    continue
                if t == src or _seq_view(t, split, conv=True) == "same":
                    continue
                if src in _subterms(t):
                    run.violated("C20.R4", f, None, "create_from_args rewrites the --%s items before storing them (%s): a list given on the command line no longer "
                                 "selects, file by file, what the user wrote" % (k.replace("_", "-"), show(t)[:100]), kind="cli-option-rewritten", option=k)
                    okc = None
                    break
            if okc is None:
                break
        if okc is None:
            break
    if okc is None:
        okc_reported = True
    else:
        okc_reported = False
    if not okc_reported and not okc:
        # the loader (or the settings) handed to something of the project that is not followed -- a table of option objects with
        # parse / apply methods, a helper in another module: the stores may happen there
        loaders = [e.term[1][0][1] for e in r.events if e.kind == "store" and e.term[1][0][0] == "attr"] + \
                  [t for t in (rr[1] for rr in r.returns) if t is not None]
        esc = common.opaque_project_calls(project, r, loaders + [("sym", p_) for p_ in f.params()])
        esc = [e for e in esc if not (e.term[1][0] == "sym" and e.term[1][1] in ("cls", "CollectionLoader"))]
        if esc:
            run.undecided("C20.R4", f, esc[0].node, "create_from_args hands the loader / the settings to %s, which is not followed: cannot tell how the options reach the "
                          "loader" % show(esc[0].term[1])[:60], kind="cli-options-opaque")
            okc_reported = True
    if not okc_reported:
        (run.holds if okc else run.violated)("C20.R4", f, None, "command line: --hdu-index / --wcs-key / --blankval parsed into the loader" if okc else
                                         "create_from_args does not derive loader.%s from the parsed command-line settings" % [k for k in ("hdu_index", "wcs_key", "blankval") if k not in st],
                                         **({} if okc else {"kind": "cli-options"}))
    # load()
    f = project.fn(COLL + ".load")
    run.note_func(f)
    r = sym.make_evaluator(project, COLL, []).run(f.node)
    st = {e.term[1][0][2]: e.term[1][1] for e in r.events if e.kind == "store" and e.term[1][0][0] == "attr"}
    okf = all(st.get(k) == ("sym", k) for k in ("hdu_index", "wcs_key", "blankval"))
    lp = [e for e in r.events if e.kind == "call" and e.term[1][0] == "attr" and e.term[1][2] == "load_paths"]
    if lp and lp[0].term[2]:
        how = _seq_view(lp[0].term[2][0], ("sym", f.params()[0]))
        if how != "same":
            run.violated("C20.R4", f, lp[0].node, "load() hands the loader %s instead of the paths it was given, in order and with repeats: per-file hdu_index / wcs_key "
                         "lists no longer pair up with the files" % show(lp[0].term[2][0])[:80], kind="paths-" + how)
    (run.holds if okf else run.violated)("C20.R4", f, None, "load(): options handed to the loader unchanged" if okf else
                                         "collection.load() drops or alters %s" % [k for k in ("hdu_index", "wcs_key", "blankval") if st.get(k) != ("sym", k)],
                                         **({} if okf else {"kind": "load-options"}))
    # tile_fits
    f = project.fn("toasty.tile_fits")
    run.note_func(f)
    r = sym.make_evaluator(project, "toasty", []).run(f.node)
    c = [e for e in r.events if e.kind == "call" and e.term[1][0] == "attr" and e.term[1][2] == "load"]
    okt = False
    if c:
        kw = dict(c[0].term[3])
        okt = all(kw.get(k) == ("sym", k) for k in ("hdu_index", "wcs_key", "blankval")) and c[0].term[2] and c[0].term[2][0] == ("sym", f.params()[0])
    (run.holds if okt else run.violated)("C20.R4", f, c[0].node if c else None, "tile_fits forwards fits / hdu_index / wcs_key / blankval to collection.load" if okt else
                                         "tile_fits does not hand hdu_index, wcs_key and blankval unchanged to collection.load", **({} if okt else {"kind": "tile-fits-options"}))
    # CLI commands that build a collection directly: every selection option they declare must be forwarded
    cli = "toasty.cli"
    for g in project.functions_in(cli):
        ctor = [c for c in own_calls(g.node) if (dotted(c.func) or "").split(".")[-1] in ("SimpleFitsCollection",)]
        viaL = [c for c in own_calls(g.node) if callee_attr(c) == "load_paths"]
        if not ctor and not viaL:
            continue
        run.note_func(g)
        # the options the command declares: look at its *_getparser sibling
        base = g.name[: -len("_impl")] if g.name.endswith("_impl") else g.name
        gp = project.funcs.get("%s.%s_getparser" % (cli, base))
        declared = set()
        uses_loader_args = False
        if gp is not None:
            for c in own_calls(gp.node):
                if callee_attr(c) == "add_argument" and c.args and isinstance(c.args[0], ast.Constant):
                    declared.add(c.args[0].value)
                if callee_attr(c) == "add_arguments" and "CollectionLoader" in ast.unparse(c.func):
                    uses_loader_args = True
        rg = sym.make_evaluator(project, cli, []).run(g.node)
        settings = ("sym", g.params()[0]) if g.params() else None
        if ctor:
            e = [x for x in rg.events if x.kind == "call" and x.node is ctor[0]]
            kw = dict(e[0].term[3]) if e else {}
            miss = []
            for opt, k in (("--hdu-index", "hdu_index"), ("--wcs-key", "wcs_key"), ("--blankval", "blankval")):
                if opt in declared and kw.get(k) != ("attr", settings, k):
                    miss.append(opt)
            if miss:
                run.violated("C20.R4", g, ctor[0], "%s declares %s but does not pass it to the collection it builds: the option is parsed and silently ignored" % (g.name, miss),
                             kind="cli-option-dropped")
            else:
                run.holds("C20.R4", g, ctor[0], "%s forwards every selection option it declares" % g.name)
        else:
            e = [x for x in rg.events if x.kind == "call" and x.node is viaL[0]]
            recv = e[0].term[1][1] if e else None
            want = ("call", ("attr", ("sym", "CollectionLoader"), "create_from_args"), (settings,), ())
            if recv == want:
                run.holds("C20.R4", g, viaL[0], "%s loads its collection through CollectionLoader.create_from_args(settings)" % g.name)
            else:
                # a loader constructed by hand: every declared option must be copied onto it
                declared_opts = [o for o in ("--hdu-index", "--wcs-key", "--blankval") if o in declared or uses_loader_args]
                stores = {x.term[1][0][2] for x in rg.events if x.kind == "store" and x.term[1][0][0] == "attr" and x.term[1][0][1] == recv}
                miss = [o for o in declared_opts if o[2:].replace("-", "_") not in stores]
                if miss:
                    run.violated("C20.R4", g, viaL[0], "%s builds its loader by hand and never sets %s on it: the option is parsed and silently ignored" % (g.name, miss),
                                 kind="cli-option-dropped")
                else:
                    run.holds("C20.R4", g, viaL[0], "%s copies every declared selection option onto its loader" % g.name)


# ---------------------------------------------------------------------------

def _subterms(t, acc=None):
    acc = [] if acc is None else acc
    if isinstance(t, tuple):
        if t and isinstance(t[0], str):
            acc.append(t)
        for x in t:
            if isinstance(x, tuple):
                _subterms(x, acc)
    return acc


def _comp_sources(t):
    """Collections iterated by comprehensions inside *t*: [(it term, its zip parts or None)]."""
    out = []
    for x in _subterms(t):
        if x[0] == "op" and x[1] == "comp":
            it = x[2][2]
            parts = it[2] if (it[0] == "call" and it[1] == ("sym", "zip")) else None
            out.append((it, parts))
    return out


def _r5_shape_agreement(run):
    """descriptions() and images() of one file describe the same array: when a cube is cut down to its celestial plane, the
    shape announced by the description is the shape of the data handed out.  Both are terms over the same axis mask and the
    same (padded) HDU shape; they are evaluated for every mask with two kept axes among 2..4 and a shape of distinct primes."""
    import itertools
    from sa.teval import teval, UNKNOWN
    project = run.project
    f = project.fn(COLL + ".SimpleFitsCollection._load")
    run.note_func(f)
    ev = sym.make_evaluator(project, COLL, [], inline_local=True, no_inline=("_scan_hdus",))
    ev.self_class = COLL + ".SimpleFitsCollection"
    r = ev.run(f.node)
    descs = [e for e in r.events if e.kind == "call" and show(e.term[1]) == "ImageDescription"]
    imgs = [e for e in r.events if e.kind == "call" and show(e.term[1]) == "Image.from_array"]
    if len(descs) != 1 or len(imgs) != 1:
        run.undecided("C20.R5", f, None, "_load does not build exactly one ImageDescription and one Image.from_array (%d, %d)" % (len(descs), len(imgs)), kind="load-shape")
        return
    dshape = dict(descs[0].term[3]).get("shape") or (descs[0].term[2][1] if len(descs[0].term[2]) > 1 else None)
    data = imgs[0].term[2][0] if imgs[0].term[2] else dict(imgs[0].term[3]).get("array")
    if dshape is None or data is None:
        run.undecided("C20.R5", f, descs[0].node, "cannot find the description's shape / the image's data argument", kind="load-args")
        return
    # the mask: a collection iterated on both sides; the shape: its zip partner (description) = the reshape argument (image)
    dsrc, isrc = _comp_sources(dshape), _comp_sources(data)
    d_cols = {p for it, parts in dsrc for p in (parts or (it,))}
    i_cols = {p for it, parts in isrc for p in (parts or (it,))}
    masks = d_cols & i_cols
    if len(masks) > 1:
        # the mask may itself be computed by a comprehension: take the outermost common collection
        big = max(masks, key=lambda t: len(repr(t)))
        if all(m == big or m in _subterms(big) for m in masks):
            masks = {big}
    reshapes = [x for x in _subterms(data) if x[0] == "call" and x[1][0] == "attr" and x[1][2] == "reshape" and x[2]]
    if not masks and not dsrc and not isrc:
        # no cutting down on either side
        run.holds("C20.R5", f, descs[0].node, "neither the description nor the image cuts the HDU shape down")
        return
    if len(masks) != 1 or len(reshapes) < 1:
        if not isrc and dsrc or (isrc and not _comp_sources(dshape) and "sub" not in {x[0] for x in _subterms(dshape)}):
            run.violated("C20.R5", f, descs[0].node, "only one of description / image is cut down to the celestial axes: the announced shape is not the shape of the data",
                         kind="shape-one-sided")
            return
        if isrc and len(reshapes) >= 1:
            # the image is cut by a mask, the description by something else (slice, literal): evaluate with the image's mask
            masks = {p for it, parts in isrc for p in (parts or (it,))}
            if len(masks) > 1:
                big = max(masks, key=lambda t: len(repr(t)))
                if all(m == big or m in _subterms(big) for m in masks):
                    masks = {big}
            if len(masks) != 1:
                run.undecided("C20.R5", f, descs[0].node, "cannot identify the axis mask shared by description and image", kind="shape-mask")
                return
        else:
            run.undecided("C20.R5", f, descs[0].node, "cannot identify the axis mask shared by description and image", kind="shape-mask")
            return
    K = next(iter(masks))
    S = reshapes[0][2][0]
    # force the "cut down" branch: every case distinction whose arms differ in containing the cut
    def force(t, env):
        for x in _subterms(t):
            if x[0] == "ite":
                a_cut = any(y[0] == "op" and y[1] == "comp" for y in _subterms(x[2])) or any(y[0] == "sub" and y[2][0] == "slice" for y in _subterms(x[2]))
                b_cut = any(y[0] == "op" and y[1] == "comp" for y in _subterms(x[3])) or any(y[0] == "sub" and y[2][0] == "slice" for y in _subterms(x[3]))
                if a_cut != b_cut:
                    env[x[1]] = a_cut
    bad = None
    n = 0
    unknown = None
    # the HDU's own shape and the number of WCS axes, where the code distinguishes them (a WCS with more axes than the array
    # pads the shape with leading 1s): the array may have fewer axes than the mask has entries
    both = list(_subterms(S)) + list(_subterms(dshape))
    H = [x for x in both if x[0] == "attr" and x[2] == "shape" and "data" not in show(x[1])[-6:]]
    NAX = [x for x in both if x[0] == "attr" and x[2] == "naxis"]
    H = H[0] if len(set(H)) == 1 else None
    NAX = NAX[0] if len(set(NAX)) == 1 else None
    for size, ndim in [(sz, sz) for sz in (2, 3, 4)] + ([(3, 2), (4, 2), (4, 3)] if (H is not None and NAX is not None and S != H) else []):
        for keep in itertools.combinations(range(size), 2):
            kvec = tuple(i in keep for i in range(size))
            svec = (2, 3, 5, 7)[:size]
            env = {K: kvec, S: svec}
            if ndim != size:
                env = {K: kvec, H: (3, 5, 7)[:ndim], NAX: size}
                svec = teval(S, env)
                if svec is UNKNOWN or not isinstance(svec, tuple) or len(svec) != size:
                    unknown = "the padded shape %s for a %d-d array under a %d-axis WCS" % (show(S)[:60], ndim, size)
                    continue
                env[S] = svec
            if size > 2:
                force(dshape, env)
                force(data, env)
            else:
                for t in (dshape, data):
                    for x in _subterms(t):
                        if x[0] == "ite":
                            a_cut = any(y[0] == "op" and y[1] == "comp" for y in _subterms(x[2])) or any(y[0] == "sub" and y[2][0] == "slice" for y in _subterms(x[2]))
                            b_cut = any(y[0] == "op" and y[1] == "comp" for y in _subterms(x[3])) or any(y[0] == "sub" and y[2][0] == "slice" for y in _subterms(x[3]))
                            if a_cut != b_cut:
                                env[x[1]] = not a_cut      # a plain 2-D HDU is not cut
            got = teval(dshape, env)
            # the data: reshape(S)[index] -- the index keeps an axis where it is a full slice
            arr = data
            while arr[0] == "ite":
                c = teval(arr[1], env)
                if c is UNKNOWN:
                    break
                arr = arr[2] if c else arr[3]
            if arr[0] == "sub":
                idx = teval(arr[2], env)
                if idx is UNKNOWN or not isinstance(idx, tuple) or len(idx) != size:
                    unknown = "the index applied to the data (%s)" % show(arr[2])[:80]
                    continue
                want = tuple(sv for sv, i in zip(svec, idx) if isinstance(i, slice))
            elif arr[0] == "call" and arr[1][0] == "attr" and arr[1][2] == "reshape":
                want = svec
            else:
                unknown = "the data handed to Image.from_array (%s)" % show(arr)[:80]
                continue
            if got is UNKNOWN:
                unknown = "the description's shape (%s)" % show(dshape)[:80]
                continue
            n += 1
            if tuple(got) != tuple(want):
                bad = (kvec, svec, tuple(got), tuple(want))
                break
        if bad:
            break
    if bad:
        run.violated("C20.R5", f, descs[0].node, "for an HDU of shape %s whose celestial axes are %s the description announces shape %s but the image has shape %s: "
                     "descriptions() and images() disagree about the same file" % (bad[1], bad[0], bad[2], bad[3]), kind="shape-disagrees", case=repr(bad))
    elif unknown or n == 0:
        run.undecided("C20.R5", f, descs[0].node, "cannot evaluate %s" % (unknown or "any case"), kind="shape-eval")
    else:
        run.holds("C20.R5", f, descs[0].node, "description shape == image shape for every axis mask with two kept axes among 2..4 (%d cases)" % n, cases=n)


# ---------------------------------------------------------------------------------------------------------------------
# R4 (call sites): whoever builds a collection hands over the paths it was given


def _alters_sequence(t):
    """If *t* is a definite re-ordering / de-duplicating / filtering / shortening of an inner sequence S, return (what, S)."""
    if t[0] == "call" and t[1][0] == "sym" and t[1][1] in ("list", "tuple") and len(t[2]) == 1:
        inner = _alters_sequence(t[2][0])
        if inner:
            return inner
        a = t[2][0]
        # list(dict.fromkeys(S)) / list(set(S)) / list(OrderedDict.fromkeys(S))
        if a[0] == "call" and a[1][0] == "attr" and a[1][2] == "fromkeys" and a[2]:
            return ("de-duplicated (dict.fromkeys)", a[2][0])
        return None
    if t[0] == "call" and t[1][0] == "sym" and t[1][1] in ("sorted", "set", "frozenset", "reversed") and t[2]:
        return ({"sorted": "sorted", "reversed": "reversed"}.get(t[1][1], "de-duplicated (set)"), t[2][0])
    if t[0] == "call" and t[1][0] == "attr" and t[1][2] == "fromkeys" and t[2]:
        return ("de-duplicated (dict.fromkeys)", t[2][0])
    if t[0] == "call" and t[1] == ("sym", "filter") and len(t[2]) == 2:
        return ("filtered", t[2][1])
    if t[0] == "call" and show(t[1]) in ("np.unique", "numpy.unique") and t[2]:
        return ("de-duplicated and sorted (np.unique)", t[2][0])
    if t[0] == "op" and t[1] == "comp" and t[2][3] != sym.TRUE:
        return ("filtered", t[2][2])
    if t[0] == "sub" and t[2][0] == "slice" and not (t[2][1] == sym.NONE and t[2][2] == sym.NONE and t[2][3] == sym.NONE):
        return ("sliced", t[1])
    return None


def paths_at_call_sites(run, rule="C20.R4"):
    """Every call that builds a collection from paths -- load_paths(paths), collection.load(paths, ...),
    SimpleFitsCollection(paths, ...) -- anywhere in the package: the argument is not a sorted / de-duplicated / filtered /
    sliced version of a path list the caller received (a parameter, an attribute of its settings): the per-file option
    lists the same caller forwards are indexed by position in the list the user gave."""
    project = run.project
    n = 0
    for f in project.py_funcs():
        if "/tests/" in (f.module.relpath or ""):
            continue
        sites = [c for c in own_calls(f.node) if callee_attr(c) in ("load_paths",) or (dotted(c.func) or "").split(".")[-1] in ("SimpleFitsCollection",)
                 or ((dotted(c.func) or "") in ("collection.load", "toasty.collection.load"))]
        if not sites:
            continue
        try:
            r = sym.make_evaluator(project, f.module.name, []).run(f.node)
        except Exception:
            continue
        params = {("sym", p_) for p_ in f.params()}
        for c in sites:
            ev_ = [e for e in r.events if e.kind == "call" and e.node is c]
            if not ev_:
                continue
            args = ev_[0].term[2]
            kw = dict((k, v) for k, v in ev_[0].term[3] if k != "**")
            arg = args[0] if args else kw.get("paths", kw.get("fits"))
            if arg is None:
                continue
            n += 1
            run.note_func(f)
            alt = _alters_sequence(arg)
            if alt is not None:
                what, src = alt
                roots = [a for a in _subterms(src) if a in params or (a[0] == "attr" and a[1] in params)]
                if roots:
                    run.violated(rule, f, c, "%s hands the collection its input paths %s (%s) instead of the list it received (%s), in order and with repeats: per-file "
                                 "--hdu-index / --wcs-key lists are indexed by position in the list the user gave and no longer pair up with the files"
                                 % (f.short, what, show(arg)[:60], show(roots[0])[:40]), kind="paths-altered")
                    continue
            run.holds(rule, f, c, "%s passes its path list on as received" % f.short)
    return n


# ---------------------------------------------------------------------------------------------------------------------
# R1 (default selection): which HDU counts as "holding image data"


def default_search_predicate(run, f, r, rule="C20.R1"):
    """With no hdu_index the scan stops at the first HDU holding image data.  The stop condition of the search loop is
    evaluated for image HDUs of 0 to 5 dimensions: it must accept exactly those with at least two axes (an empty primary
    or a 1-D array is passed over; images and cubes - which `_load` reduces to their first plane - are taken)."""
    from sa import teval as _teval
    brk = [e for e in r.events if e.kind == "break"]
    if not brk:
        return
    done = 0
    for e in brk:
        loops = [i for i, c in enumerate(e.pc) if c[0] == "loop"]
        if not loops:
            continue
        inner = [c for c in e.pc[loops[-1] + 1:] if c[0] != "loop"]
        lens = set()
        for c in inner:
            for a in _subterms(c[0]):
                if a[0] == "call" and a[1] == ("sym", "len") and len(a[2]) == 1 and a[2][0][0] == "attr" and a[2][0][2] == "shape":
                    lens.add(a)
                elif a[0] == "attr" and a[2] in ("ndim", "naxis") :
                    lens.add(a)
        if len(lens) != 1:
            continue            # not the image search (or a form that does not count axes)
        ndim = next(iter(lens))
        verdicts = {}
        unknown = None
        for k in range(0, 6):
            ok = True
            for c in inner:
                lit = c[0]
                if ndim in _subterms(lit):
                    v = _teval.teval(lit, {ndim: k})
                    if v is _teval.UNKNOWN or v is _teval.RAISES:
                        unknown = lit
                        break
                    if bool(v) != bool(c[1]):
                        ok = False
                elif lit[0] == "call" and lit[1] == ("sym", "hasattr"):
                    if not c[1]:
                        ok = False          # an image HDU has a shape
                elif "Table" in show(lit) or "table" in show(lit):
                    # `type(hdu) is BinTableHDU` / isinstance(hdu, ...Table...): false for an image HDU
                    positive = not (lit[0] == "op" and lit[1] in ("cmp:IsNot", "cmp:NotEq"))
                    if bool(c[1]) == positive:
                        ok = False
                else:
                    unknown = lit
                    break
            if unknown is not None:
                break
            verdicts[k] = ok
        if unknown is not None:
            run.undecided(rule, f, e.node, "default selection: the search stops under %s, which cannot be evaluated for an image HDU" % show(unknown)[:80], kind="search-predicate-shape")
            done += 1
            continue
        wrong = [k for k, v in verdicts.items() if v != (k >= 2)]
        if wrong:
            k = wrong[0]
            what = ("an image HDU with %d axes (%s) is passed over: a later extension is taken instead of the first HDU "
                    "holding image data" % (k, "a plain 2-D image" if k == 2 else "a cube, which _load reduces to its first plane")) if k >= 2 else ("an HDU with %d axes (%s) is taken as the image" % (k, "an empty primary HDU" if k == 0 else "a 1-D array"))
            run.violated(rule, f, e.node, "default selection: %s" % what, kind="search-predicate", dims=wrong)
        else:
            run.holds(rule, f, e.node, "default selection stops at the first HDU with at least two axes (checked for 0..5 axes)")
        done += 1
    return done



def _r6_one_item_per_input(run, rule="C20.R6"):
    """The loader hands out exactly one item per scanned input, for descriptions and for images alike: consumers pair the two
    sequences by position (`zip(collection.images(), descriptions)`), so an input that one view passes over shifts every later
    image onto its predecessor's geometry and the last input is never dispatched.  Decided on the loop over `_scan_hdus()`:
    the path conditions of its yields, as a disjunction, must be a tautology (raising is allowed), no yield may sit in an
    inner loop, and nothing leaves the loop early."""
    import ast as _ast
    from sa import boolalg
    project = run.project
    q = COLL + ".SimpleFitsCollection._load"
    if not project.has(q):
        run.undecided(rule, None, None, "SimpleFitsCollection._load not found (anchor vanished)", kind="anchor", construct="SimpleFitsCollection._load")
        return
    f = project.fn(q)
    run.note_func(f)
    ev = sym.make_evaluator(project, COLL, [], inline_local=True, no_inline=("_scan_hdus",))
    ev.self_class = COLL + ".SimpleFitsCollection"
    r = ev.run(f.node)
    scan = [(k, it, n) for k, it, n in r.loops if it[0] == "call" and it[1][0] == "attr" and it[1][2] == "_scan_hdus"]
    if len(scan) != 1:
        run.undecided(rule, f, None, "_load: %d loops over self._scan_hdus() found" % len(scan), kind="scan-loop")
        return
    k, it, lnode = scan[0]
    ys = [e for e in r.events if e.kind == "yield" and ("loop", k) in [(c[0], c[1]) for c in e.pc if c[0] == "loop"]]
    if not ys:
        run.undecided(rule, f, lnode, "_load: no yield inside the loop over the scanned inputs", kind="no-yield")
        return
    inner = [e for e in ys if len([c for c in e.pc if c[0] == "loop"]) > 1]
    if inner:
        run.undecided(rule, f, inner[0].node, "_load yields inside a nested loop: the number of items per input is not decided", kind="yield-nested")
        return
    # early exits of the loop itself
    def own_exits(loop):
        out = []
        def visit(stmts):
            for st in stmts:
                if isinstance(st, (_ast.Continue, _ast.Break, _ast.Return)):
                    out.append(st)
                elif isinstance(st, (_ast.For, _ast.While)):
                    for x in _ast.walk(st):
                        if isinstance(x, _ast.Return):
                            out.append(x)
                    visit(st.orelse)
                elif isinstance(st, (_ast.FunctionDef, _ast.AsyncFunctionDef, _ast.ClassDef)):
                    continue
                else:
                    for field in ("body", "orelse", "finalbody"):
                        visit(getattr(st, field, []) or [])
                    for h in getattr(st, "handlers", []) or []:
                        visit(h.body)
        visit(loop.body)
        return out
    conds = []
    for e in ys:
        conds.append(boolalg.conj([c for c in e.pc if c[0] != "loop"]))
    disj = conds[0] if len(conds) == 1 else ("op", "or", tuple(conds))
    total = boolalg.equiv(disj, sym.TRUE)
    exits = own_exits(lnode) if isinstance(lnode, (_ast.For, _ast.While)) else []
    if total is True and not exits:
        run.holds(rule, f, ys[0].node, "_load yields exactly one item per scanned input on every normal path (%d yield site(s)), for descriptions and images alike" % len(ys))
    elif exits or total is False:
        where = exits[0] if exits else ys[0].node
        why = ("`%s` at line %d leaves the iteration" % (type(exits[0]).__name__.lower(), exits[0].lineno)) if exits else \
            "the yield is reached only under %s" % show(disj)[:100]
        run.violated(rule, f, where, "_load can pass over a scanned input without yielding an item (%s): descriptions() and images() then differ in length / order, and "
                     "consumers that pair them by position tile every later image with its predecessor's geometry and never dispatch the last one" % why,
                     kind="input-skipped")
    else:
        run.undecided(rule, f, ys[0].node, "_load: cannot show that every scanned input yields an item (condition %s)" % show(disj)[:100], kind="yield-condition")
