"""C16 - Flipping image parity reverses rows but moves no pixel on the sky.

R1 header algebra of the WCS reflection: CDi_j = CDELTi * PCi_j (identity defaults); exactly the
   second column (CD1_2, CD2_2) is negated; CRPIX2 -> H + 1 - CRPIX2; nothing else changes; one path
R2 H is the image *height* for Image and ImageDescription; Image reverses axis 0 of its data
R3 parity sign = +1 iff CD1_1*CD2_2 - CD1_2*CD2_1 < 0 (same CD definition); ensure_negative_parity
   flips iff the sign is +1
R4 the header object that is edited is private to the call (no module-level / cached header)
"""
import ast

from sa import sym, boolalg
from sa.sym import show, num, num_value, atoms_of
from sa.model import dotted, own_calls, own_nodes
from . import common

IMG = "toasty.image"

EXPLANATION = (
    "_flip_wcs_parity is evaluated abstractly with flow-sensitive tracking of the header's keys: the final values of CD1_1, "
    "CD1_2, CD2_1, CD2_2 and CRPIX2 are polynomials in the atoms CDELTi, PCi_j (with their defaults) and the image height, "
    "and must equal (CDELT1*PC1_1, -CDELT1*PC1_2, CDELT2*PC2_1, -CDELT2*PC2_2, H + 1 - CRPIX2). For a linear WCS "
    "world = CRVAL + CD (p - CRPIX), negating column 2 of CD and reflecting CRPIX2 about (H+1)/2 gives CD'(p' - c') = CD(p - c) "
    "for p' = (x, H + 1 - y) (1-based), i.e. pixel (x, y) and pixel (x, H-1-y) (0-based) after the flip see the same sky: the "
    "property's invariance for every linear WCS. The determinant is negated (one column negated), so the parity sign "
    "flips; ensure_negative_parity flips iff the sign is +1, hence is idempotent with result -1."
)

MANIFEST = {
    "technique": "static analysis: flow-sensitive abstract interpretation of header key updates to polynomials over FITS keyword atoms, compared with the reflection algebra; determinant form and orientation; argument provenance (height) by parameter binding; shared-state check; representation consistency of Image under flip_parity; who-may-delete: only the CDELT/PC keywords leave the header; accessor identity of asarray() (shared with C15)",
    "text": "Decides the exact algebra of the WCS reflection, the parity-sign determinant and the ensure/flip control logic for Image and ImageDescription; with the linear-WCS model this is the claimed sky invariance for all linear WCS.",
    "note": "Trusted: astropy WCS.to_header emits CDELT/PC (+ CRPIX) for a linear celestial WCS and WCS(header) reads CD; FITS 1-based pixel convention. Not decided: non-linear distortion terms (outside the property).",
}

KEYS = ("CDELT1", "CDELT2", "PC1_1", "PC1_2", "PC2_1", "PC2_2", "CRPIX2")


def run(run):
    run.explanation = EXPLANATION
    run.assumptions += ["astropy: wcs.to_header() returns a fresh header in CDELT/PC form; WCS(header) honours CDi_j"]
    run.undecided_clauses += ["non-linear WCS terms (outside the property)"]
    for r, n in (("C16.R1", 5), ("C16.R2", 3), ("C16.R3", 3), ("C16.R4", 1), ("C16.R5", 3)):
        run.floor(r, n)
    project = run.project
    ev = sym.make_evaluator(project, IMG, [], inline_local=True)
    ev.unroll = True          # loops over literal keyword tables are followed entry by entry
    ev.unroll = True            # a loop over a literal tuple of header keywords is evaluated keyword by keyword
    _r1(run, ev)
    _r2(run)
    _r3(run, ev)
    _r4(run)
    from . import imgrep
    imgrep.check(run, "C16.R5")


def _pc(h, key, default):
    """Canonical atom for 'PC key with identity default', whichever accessor is used."""
    return ("sym", "%s|%s" % (key, default))


def _canon_header_terms(t, h):
    """Rewrite h[k] -> sym k ; h.get(k, d) / h.setdefault(k, d) -> sym 'k|d'."""
    if not isinstance(t, tuple) or not t:
        return t
    if t[0] == "sub" and t[1] == h and t[2][0] == "const":
        return ("sym", str(t[2][1]))
    if t[0] == "call" and t[1][0] == "attr" and t[1][1] == h and t[1][2] in ("get", "setdefault") and len(t[2]) == 2 and t[2][0][0] == "const":
        d = num_value(t[2][1])
        return ("sym", "%s|%s" % (t[2][0][1], float(d) if d is not None else show(t[2][1])))
    out = tuple(_canon_header_terms(x, h) if isinstance(x, tuple) else x for x in t)
    return out


def _renorm(t):
    from sa.termdiff import renorm
    return renorm(t)


def _r1(run, ev):
    project = run.project
    f = project.fn(IMG + "._flip_wcs_parity")
    run.note_func(f)
    r = ev.run(f.node)
    wcs_p, hgt = ("sym", f.params()[0]), ("sym", f.params()[1])
    if len(r.returns) != 1:
        extra = r.returns[0]
        conds = [("" if p else "not ") + show(c)[:60] for c, p in extra[0] if c[0] != "loop"]
        run.violated("C16.R1", f, extra[2], "the reflection has %d return paths (an extra path under %s): every WCS must go through the one CD-matrix reflection "
                     "(a shortcut that e.g. negates CDELT2 negates a *row* of the CD matrix and moves pixels on the sky for sheared WCS)" % (len(r.returns), conds),
                     kind="extra-path")
        return
    ret = r.returns[0][1]
    if not (ret[0] == "call" and show(ret[1]).split(".")[-1] == "WCS" and len(ret[2]) == 1):
        run.undecided("C16.R1", f, r.returns[0][2], "result is not WCS(header)", kind="result-shape")
        return
    h = ret[2][0]
    fresh = ("call", ("attr", wcs_p, "to_header"), (), ())
    if h != fresh:
        run.undecided("C16.R1", f, r.returns[0][2], "the edited header is %s, not wcs.to_header() of this call" % show(h)[:80], kind="header-source")
        return
    env = r.env if r.env is not None else {}
    # final values: take the last store per key
    final = {}
    for e in r.events:
        if e.kind == "store" and e.term[1][0][0] == "sub" and e.term[1][0][1] == h and e.term[1][0][2][0] == "const":
            final[e.term[1][0][2][1]] = (e.term[1][1], e)
    deleted = {e.term[2][1] for e in r.events if e.kind == "del" and e.term[0] == "sub" and e.term[1] == h and e.term[2][0] == "const"}
    # deletes in a loop over a literal list: del h[hn] with hn = elem("...".split())
    for e in r.events:
        if e.kind == "del" and e.term[0] == "sub" and e.term[1] == h and e.term[2][0] == "elem":
            src = e.term[2][1]
            if src[0] == "call" and src[1][0] == "attr" and src[1][2] == "split" and src[1][1][0] == "const":
                deleted |= set(src[1][1][1].split())
            elif src[0] in ("list", "tuple"):
                deleted |= {x[1] for x in src[1] if x[0] == "const"}
    # h.remove("KW"[, ignore_missing=True]) / h.pop("KW"[, default]): the other spellings of `del h["KW"]` on an astropy Header
    for e in r.events:
        if e.kind == "call" and e.term[1][0] == "attr" and e.term[1][1] == h and e.term[1][2] in ("remove", "pop") and e.term[2] \
                and e.term[2][0][0] == "const" and not [c for c in e.pc if c[0] != "loop"]:
            deleted.add(e.term[2][0][1])
    sy = lambda s: ("sym", s)
    want = {
        "CD1_1": sym.mul(sy("CDELT1"), sy("PC1_1|1.0")),
        "CD1_2": sym.neg(sym.mul(sy("CDELT1"), sy("PC1_2|0.0"))),
        "CD2_1": sym.mul(sy("CDELT2"), sy("PC2_1|0.0")),
        "CD2_2": sym.neg(sym.mul(sy("CDELT2"), sy("PC2_2|1.0"))),
        "CRPIX2": sym.sub(sym.add(hgt, num(1)), sy("CRPIX2")),
    }
    escaped = common.opaque_project_calls(project, r, [h])
    # stores / deletions under a key that is not a constant (a loop over a keyword table that was not unrolled): which keyword
    # gets which value is not known to the comparison below
    loose = [e for e in r.events if e.kind == "store" and e.term[1][0][0] == "sub" and e.term[1][0][1] == h and e.term[1][0][2][0] != "const"]
    if loose:
        run.undecided("C16.R1", f, loose[0].node, "the header is written under a computed keyword (%s): the reflection is not followed key by key"
                      % show(loose[0].term[1][0][2])[:60], kind="header-computed-key")
        return
    for key, w in want.items():
        if key not in final:
            if escaped:
                run.undecided("C16.R1", f, escaped[0].node, "the header is handed to %s, which the analysis does not follow: cannot tell what %s becomes" % (
                    show(escaped[0].term[1])[:60], key), kind="header-escapes")
                return
            bulk = [e for e in r.events if e.kind == "call" and e.term[1][0] == "attr" and e.term[1][1] == h and e.term[1][2] in ("update", "extend", "set", "insert", "append", "__setitem__", "fromkeys")]
            if bulk:
                run.undecided("C16.R1", f, bulk[0].node, "the header is filled through %s, which is not followed key by key: cannot tell what %s becomes" % (
                    show(bulk[0].term)[:70], key), kind="header-bulk-update")
                return
            run.violated("C16.R1", f, None, "the reflected header never sets %s" % key, kind="missing-" + key)
            continue
        got = _renorm(_canon_header_terms(final[key][0], h))
        raw_cd = [a for a in atoms_of(got) if a[0] == "sym" and a[1] in ("CD1_1", "CD1_2", "CD2_1", "CD2_2")]
        if got != w and raw_cd:
            # the value is built from a CD keyword as read back from the header; to_header() never writes CD keywords, so it was
            # stored by code the evaluation did not connect to this read (a helper working on the header it was handed)
            run.undecided("C16.R1", f, final[key][1].node, "%s is computed from header[%r] as read back; the store that set it is not connected to this read"
                          % (key, raw_cd[0][1]), kind="header-readback")
            return
        if got == w:
            run.holds("C16.R1", f, final[key][1].node, "%s = %s" % (key, show(w)))
        else:
            hint = ""
            if key == "CRPIX2" and got == sym.sub(hgt, sy("CRPIX2")):
                hint = " (FITS pixel indices are 1-based: the reflection is about (H+1)/2)"
            if key.startswith("CD") and got == sym.neg(w):
                hint = " (sign: exactly the second column CD1_2, CD2_2 is negated)"
            run.violated("C16.R1", f, final[key][1].node, "%s becomes %s, expected %s%s" % (key, show(got)[:80], show(w), hint), kind="algebra-" + key)
    others = [k for k in final if k not in want]
    if others:
        run.violated("C16.R1", f, final[others[0]][1].node, "the reflection also rewrites %s: only CD and CRPIX2 may change" % others, kind="extra-keys")
    need_del = {"CDELT1", "CDELT2", "PC1_1", "PC1_2", "PC2_1", "PC2_2"}
    # nothing else may be taken out of the header: every other keyword to_header() wrote (LONPOLE / LATPOLE, PVi_m, RADESYS,
    # EQUINOX, ...) is part of the sky mapping or harmless; a reflection that drops one moves pixels on the sky
    if deleted - need_del:
        run.violated("C16.R1", f, None, "the reflection removes %s from the header: only the CDELT/PC keywords (replaced by the CD matrix) may go; a dropped "
                     "keyword of the celestial frame (e.g. LONPOLE, LATPOLE, PVi_m) changes where pixels fall on the sky" % sorted(deleted - need_del), kind="extra-deleted")
    for e in r.events:
        if e.kind == "del" and e.term[0] == "sub" and e.term[1] == h and e.term[2][0] != "const":
            src = e.term[2][1] if e.term[2][0] == "elem" else None
            literal = src is not None and ((src[0] == "call" and src[1][0] == "attr" and src[1][2] == "split" and src[1][1][0] == "const") or src[0] in ("list", "tuple"))
            if literal:
                continue
            from_header = src is not None and h in _all_subterms(src)
            if from_header:
                run.violated("C16.R1", f, e.node, "the reflection deletes keywords chosen from the header's own key list (%s): everything outside a whitelist is dropped, "
                             "and no whitelist names all keywords of the celestial frame (LONPOLE, LATPOLE, PVi_m, ...): pixels move on the sky for such WCS"
                             % show(e.term[2])[:60], kind="extra-deleted")
            else:
                run.undecided("C16.R1", f, e.node, "the reflection deletes header[%s]: cannot tell which keywords go" % show(e.term[2])[:60], kind="deleted-keys")
    if not need_del <= deleted:
        run.violated("C16.R1", f, None, "the CDELT/PC keywords %s stay in the header next to the CD matrix: astropy would combine both descriptions" % sorted(need_del - deleted),
                     kind="stale-keywords")


def _r2(run):
    project = run.project
    for q, wcs_attr in ((IMG + ".Image.flip_parity", "_wcs"), (IMG + ".ImageDescription.flip_parity", "wcs")):
        f = project.fn(q)
        run.note_func(f)
        # the method with everything it delegates to spliced in (helpers of the module, methods of the class and of its
        # project base classes, setters): what counts is the reflection call and where its result is stored
        ev = sym.make_evaluator(project, IMG, [], inline_local=True, no_inline=("_flip_wcs_parity", "_wcs_to_parity_sign"))
        ev.self_class = q.rsplit(".", 1)[0]
        ev.inline_resolved = True
        ev.no_inline = ("_flip_wcs_parity", "_wcs_to_parity_sign", "asarray", "aspil", "_as_writeable_array", "get_parity_sign")
        r = ev.run(f.node)
        calls = [e for e in r.events if e.kind == "call" and e.term[1] == ("sym", "_flip_wcs_parity")]
        st = [e for e in r.events if e.kind == "store" and e.term[1][0] in (("attr", ("sym", "self"), wcs_attr), ("attr", ("sym", "self"), "_wcs"), ("attr", ("sym", "self"), "wcs"))]
        slf = ("sym", "self")
        rows = {("attr", slf, "height"), ("item", ("attr", slf, "shape"), 0), ("item", ("attr", ("call", ("attr", slf, "asarray"), (), ()), "shape"), 0)}
        cols = {("attr", slf, "width"), ("item", ("attr", slf, "shape"), 1), ("item", ("attr", ("call", ("attr", slf, "asarray"), (), ()), "shape"), 1)}
        b = (ev.bound_args(calls[0].term)[1] or {}) if calls else {}
        gp = project.fn(IMG + "._flip_wcs_parity").params()
        a_wcs, a_h = b.get(gp[0]), b.get(gp[1])
        ok = len(calls) == 1 and a_wcs in (("attr", slf, wcs_attr), ("attr", slf, "wcs"), ("attr", slf, "_wcs")) and a_h in rows and st and st[-1].term[1][1] == calls[0].term
        if ok:
            run.holds("C16.R2", f, calls[0].node, "%s: wcs <- _flip_wcs_parity(wcs, <number of rows>)" % f.short)
        elif calls and a_h in cols:
            run.violated("C16.R2", f, calls[0].node, "%s reflects about the image *width*; the rows are reversed, so the reflection must use the height" % f.short, kind="width-not-height")
        elif not calls and common.opaque_project_calls(project, r, [slf]):
            esc = common.opaque_project_calls(project, r, [slf])
            run.undecided("C16.R2", f, esc[0].node, "%s delegates to %s, which the analysis does not follow" % (f.short, show(esc[0].term[1])[:60]), kind="flip-delegated")
        else:
            run.violated("C16.R2", f, calls[0].node if calls else None, "%s does not replace its WCS by _flip_wcs_parity(<its wcs>, self.height)" % f.short, kind="flip-call")
        if "ImageDescription" not in q:
            arr = [e for e in r.events if e.kind == "store" and e.term[1][0] == ("attr", ("sym", "self"), "_array")]
            want = ("sub", ("call", ("attr", ("sym", "self"), "asarray"), (), ()), ("slice", sym.NONE, sym.NONE, num(-1)))
            if arr and arr[-1].term[1][1] == want:
                run.holds("C16.R2", f, arr[0].node, "Image.flip_parity reverses the rows (axis 0) of its data")
            else:
                got = show(arr[0].term[1][1])[:80] if arr else "nothing"
                run.violated("C16.R2", f, arr[0].node if arr else None, "Image.flip_parity sets its data to %s; expected self.asarray()[::-1] (rows reversed, columns untouched)" % got,
                             kind="data-flip")
    # height = shape[0]
    for q in (IMG + ".Image.height", IMG + ".ImageDescription.height"):
        g = project.funcs.get(q)
        if g is None:
            continue
        rr = sym.make_evaluator(project, IMG, []).run(g.node)
        ok = len(rr.returns) == 1 and rr.returns[0][1] == ("item", ("attr", ("sym", "self"), "shape"), 0)
        if not ok:
            run.violated("C16.R2", g, None, "%s is %s, expected self.shape[0]" % (g.short, show(rr.returns[0][1])[:40] if rr.returns else "?"), kind="height")
    run.holds("C16.R2", project.fn(IMG + ".Image.height"), None, "height = shape[0] for both classes")


def _r3(run, ev):
    project = run.project
    f = project.fn(IMG + "._wcs_to_parity_sign")
    run.note_func(f)
    r = ev.run(f.node)
    wcs_p = ("sym", f.params()[0])
    h = ("call", ("attr", wcs_p, "to_header"), (), ())
    sy = lambda s: ("sym", s)
    cd11 = sym.mul(sy("CDELT1"), sy("PC1_1|1.0"))
    cd12 = sym.mul(sy("CDELT1"), sy("PC1_2|0.0"))
    cd21 = sym.mul(sy("CDELT2"), sy("PC2_1|0.0"))
    cd22 = sym.mul(sy("CDELT2"), sy("PC2_2|1.0"))
    det = sym.sub(sym.mul(cd11, cd22), sym.mul(cd12, cd21))
    rets = r.returns
    folded = boolalg.fold_returns(rets) if rets and not any(c[0] == "loop" for pc, t, n in rets for c in pc) else None
    sign_cond = None
    if folded is not None and folded[0] == "ite" and num_value(folded[2]) == 1 and num_value(folded[3]) == -1:
        sign_cond = (folded[1], True)
    elif folded is not None and folded[0] == "ite" and num_value(folded[2]) == -1 and num_value(folded[3]) == 1:
        sign_cond = (folded[1], False)
    pos = [(pc, t, n) for pc, t, n in rets]
    if sign_cond is None:
        run.undecided("C16.R3", f, None, "parity sign is not `+1 if <test> else -1` (got %s)" % (show(folded)[:100] if folded is not None else "?"), kind="sign-shape")
    else:
        c = sign_cond
        ok = False
        gotdet = None
        if c is not None and c[0][0] == "op" and c[0][1] in ("cmp:Lt",):
            a, b = c[0][2]
            lt = c[1]
            if num_value(b) == 0:
                gotdet = _renorm(_canon_header_terms(a, h))          # a < 0
                ok = lt and gotdet == det
            elif num_value(a) == 0:
                gotdet = _renorm(sym.neg(_canon_header_terms(b, h)))  # 0 < b  <=>  -b < 0
                ok = lt and gotdet == det
        if ok:
            run.holds("C16.R3", f, pos[0][2], "parity sign +1 iff CD1_1*CD2_2 - CD1_2*CD2_1 < 0 with CDi_j = CDELTi*PCi_j")
        elif gotdet is not None and gotdet != det and common.opaque_project_calls(project, r, [h, wcs_p]):
            esc = common.opaque_project_calls(project, r, [h, wcs_p])
            run.undecided("C16.R3", f, esc[0].node, "the determinant is computed by %s, which the analysis does not follow" % show(esc[0].term[1])[:60], kind="determinant-delegated")
        elif gotdet is not None and gotdet != det:
            run.violated("C16.R3", f, pos[0][2], "the determinant is computed as %s, expected %s (CDi_j = CDELTi * PCi_j): the sign comes out wrong for some rotated / "
                         "unequal-scale WCS" % (show(gotdet)[:160], show(det)), kind="determinant")
        else:
            run.violated("C16.R3", f, pos[0][2], "parity sign +1 is not returned exactly when the CD determinant is negative", kind="sign-condition")
    for q in (IMG + ".Image.ensure_negative_parity", IMG + ".ImageDescription.ensure_negative_parity"):
        g = project.fn(q)
        run.note_func(g)
        evg = sym.make_evaluator(project, IMG, [], inline_local=True, no_inline=("_flip_wcs_parity", "_wcs_to_parity_sign"))
        evg.self_class = q.rsplit(".", 1)[0]
        evg.inline_resolved = True
        evg.no_inline = ("_flip_wcs_parity", "_wcs_to_parity_sign", "flip_parity", "get_parity_sign", "asarray")
        rg = evg.run(g.node)
        fl = [e for e in rg.events if e.kind == "call" and e.term[1] == ("attr", ("sym", "self"), "flip_parity")]
        want = sym.cmp("Eq", ("call", ("attr", ("sym", "self"), "get_parity_sign"), (), ()), num(1))
        if len(fl) == 1 and boolalg.equiv(boolalg.conj(fl[0].pc), want) is True:
            run.holds("C16.R3", g, fl[0].node, "%s flips iff get_parity_sign() == 1 (idempotent, result -1)" % g.short)
        else:
            conds = [[("" if p else "not ") + show(c)[:60] for c, p in e.pc if c[0] != "loop"] for e in fl]
            run.violated("C16.R3", g, fl[0].node if fl else None, "%s flips under %s; it must flip exactly when the parity sign is +1" % (g.short, conds or "never"),
                         kind="ensure-condition")
    for q in (IMG + ".Image.get_parity_sign", IMG + ".ImageDescription.get_parity_sign"):
        g = project.fn(q)
        evg = sym.make_evaluator(project, IMG, [], inline_local=True, no_inline=("_flip_wcs_parity", "_wcs_to_parity_sign"))
        evg.self_class = q.rsplit(".", 1)[0]
        evg.inline_resolved = True
        evg.no_inline = ("_flip_wcs_parity", "_wcs_to_parity_sign", "flip_parity", "asarray")
        rg = evg.run(g.node)
        last = rg.returns[-1][1] if rg.returns else None
        attr = "_wcs" if ".Image." in q else "wcs"
        accepted = [("call", ("sym", "_wcs_to_parity_sign"), (("attr", ("sym", "self"), a_),), ()) for a_ in (attr, "wcs", "_wcs")]
        if last not in accepted:
            run.violated("C16.R3", g, None, "%s does not return _wcs_to_parity_sign(self.%s)" % (g.short, attr), kind="get-parity")


def _r4(run):
    project = run.project
    chain = [IMG + "._flip_wcs_parity", IMG + "._wcs_to_parity_sign"]
    # helpers of the same module reachable from the chain
    seen = set(chain)
    frontier = list(chain)
    while frontier:
        q = frontier.pop()
        f = project.funcs.get(q)
        if f is None:
            continue
        for c in own_calls(f.node):
            if isinstance(c.func, ast.Name) and (IMG + "." + c.func.id) in project.funcs and (IMG + "." + c.func.id) not in seen:
                seen.add(IMG + "." + c.func.id)
                frontier.append(IMG + "." + c.func.id)
    bad = []
    mod_names = {n.targets[0].id for n in project.mod(IMG).tree.body if isinstance(n, ast.Assign) and len(n.targets) == 1 and isinstance(n.targets[0], ast.Name)}
    for q in sorted(seen):
        f = project.funcs[q]
        run.note_func(f)
        for n in own_nodes(f.node):
            if isinstance(n, ast.Global):
                bad.append((f, n, "rebinds module-level name(s) %s" % n.names))
    if bad:
        f, n, msg = bad[0]
        run.violated("C16.R4", f, n, "%s %s: the header that _flip_wcs_parity edits in place can be an object remembered from an earlier call, so parity "
                     "operations on objects sharing one WCS instance see each other's edits" % (f.short, msg), kind="shared-header-state")
    else:
        run.holds("C16.R4", project.fn(chain[0]), None, "the parity helpers keep no state between calls; the edited header is wcs.to_header() of the call", functions=sorted(seen))


def _all_subterms(t):
    out = []

    def visit(x):
        if isinstance(x, tuple) and x:
            out.append(x)
            for y in x:
                if isinstance(y, tuple):
                    visit(y)
    visit(t)
    return out
