"""Parity/format agreement, shared by C06 (R2b), C08 and C09: wherever a
vertical-parity decision precedes a tile write, the decision must be derived
from the format the tile is written in."""
import ast

from sa import sym
from sa.sym import show, atoms_of
from sa.model import own_calls, own_nodes


def _groups(project):
    """Functions grouped by class (methods share self._pio) or alone."""
    groups = {}
    for f in project.py_funcs():
        if f.module.name.startswith("toasty.tests"):
            continue
        key = (f.module.name, f.cls.name) if f.cls is not None else (f.qual,)
        groups.setdefault(key, []).append(f)
    return groups


def parity_sites(project):
    """Yield (group key, funcs, parity atoms, write atoms) for every group that both
    decides a vertical parity and writes/updates tiles."""
    out = []
    for key, funcs in sorted(_groups(project).items()):
        pa, wa = [], []
        relevant = False
        for f in funcs:
            src_has = any(isinstance(c.func, ast.Attribute) and c.func.attr in ("get_default_vertical_parity_sign", "write_image", "update_image")
                          or (isinstance(c.func, ast.Name) and c.func.id == "get_format_vertical_parity_sign") for c in own_calls(f.node))
            if not src_has:
                continue
            ev = sym.make_evaluator(project, f.module.name, [])
            r = ev.run(f.node)
            for e in r.events:
                if e.kind != "call":
                    continue
                fn = e.term[1]
                if fn[0] == "attr" and fn[2] == "get_default_vertical_parity_sign":
                    pa.append(("default", fn[1], f, e))
                elif fn == ("sym", "get_format_vertical_parity_sign") and e.term[2]:
                    pa.append(("format", e.term[2][0], f, e))
                elif fn[0] == "attr" and fn[2] in ("write_image", "update_image"):
                    fmt = dict(e.term[3]).get("format")
                    wa.append((fn[2], fn[1], fmt, f, e))
        if pa and wa:
            out.append((key, funcs, pa, wa))
    return out


def _norm_recv(t):
    """self._pio and the constructor parameter pio denote the same object in a class."""
    s = show(t)
    return s.replace("self._pio", "pio").replace("self.pio", "pio")


def check(run, rule, skip_classes=()):
    project = run.project
    n = 0
    for key, funcs, pa, wa in parity_sites(project):
        if len(key) == 2 and key[1] in skip_classes:
            continue
        # PyramidIO itself defines these operations
        if len(key) == 2 and key[1] == "PyramidIO":
            continue
        for kind, arg, f, e in pa:
            n += 1
            run.note_func(f)
            recv_w = {_norm_recv(w[1]) for w in wa}
            explicit = [w for w in wa if w[2] is not None]
            if kind == "default":
                if _norm_recv(arg) not in recv_w:
                    run.violated(rule, f, e.node, "the vertical parity is taken from %s but the tiles are written through %s" % (
                        show(arg)[:60], sorted(recv_w)), kind="parity-other-pyramid")
                elif explicit and len(explicit) == len(wa):
                    run.violated(rule, f, e.node, "rows are laid out for the pyramid's default format, but every tile write passes an explicit "
                                 "format (%s)" % show(explicit[0][2])[:60], kind="parity-default-vs-explicit")
                else:
                    run.holds(rule, f, e.node, "parity decided from the default format of the pyramid the tiles are written to",
                              group=".".join(key))
            else:
                s = show(arg)
                from_default = any(("get_default_format" in show(a) or "_default_format" in show(a)) and any(
                    rw in show(a).replace("self._pio", "pio").replace("self.pio", "pio") for rw in recv_w) for a in atoms_of(arg) | {arg})
                matches_explicit = any(w[2] is not None and (w[2] == arg or arg in atoms_of(w[2]) or w[2] in atoms_of(arg)) for w in wa)
                if from_default or matches_explicit:
                    run.holds(rule, f, e.node, "parity decided from the format expression used for writing", group=".".join(key))
                elif not explicit:
                    run.violated(rule, f, e.node, "the vertical parity is decided from the format %s, but the tiles are written in the pyramid's "
                                 "default format (no format passed to %s): when the two formats differ in parity the rows are stored upside down"
                                 % (s[:80], "/".join(sorted({w[0] for w in wa}))), kind="parity-format-mismatch")
                else:
                    run.undecided(rule, f, e.node, "cannot relate parity format %s to the written format %s" % (s[:60], show(explicit[0][2])[:60]),
                                  kind="parity-format-unrelated")
    return n
