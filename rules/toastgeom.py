"""Facts about the TOAST subdivision shared by C04, C05 (and C12): canonical
quadrant table of the Python subdivision (_div4) and of the compiled one
(_subsample in the .pyx front-end), level-1 literal table."""
import ast

from sa import sym
from sa.sym import show, num, num_value
from sa.model import AnalysisError, dotted, try_const, own_nodes

T = "toasty.toast"
L = "toasty._libtoasty"

MID = ("sym", "MID")


def norm_mid(t, names=("mid", "_mid")):
    """Rewrite calls of the midpoint routine into a commutative canonical form."""
    if not isinstance(t, tuple) or not t:
        return t
    if t[0] == "call" and t[1][0] == "sym" and t[1][1] in names and len(t[2]) == 2 and not t[3]:
        a, b = norm_mid(t[2][0], names), norm_mid(t[2][1], names)
        # mid(x if c else y, u if c else v) is (mid(x, u) if c else mid(y, v)): a case distinction made on the operands or on
        # the result is the same subdivision
        if a[0] == "ite" and b[0] == "ite" and a[1] == b[1]:
            return sym.mk_ite(a[1], ("call", MID, tuple(sorted((a[2], b[2]), key=repr)), ()), ("call", MID, tuple(sorted((a[3], b[3]), key=repr)), ()))
        return ("call", MID, tuple(sorted((a, b), key=repr)), ())
    if isinstance(t[0], str):
        return (t[0],) + tuple(norm_mid(x, names) if isinstance(x, tuple) else x for x in t[1:])
    return tuple(norm_mid(x, names) if isinstance(x, tuple) else x for x in t)


def M(a, b):
    return ("call", MID, tuple(sorted((a, b), key=repr)), ())


def spec_children(ul, ur, lr, ll, inc):
    """{(dx, dy): (UL, UR, LR, LL)} of the documented subdivision."""
    to, ri, bo, le = M(ul, ur), M(ur, lr), M(lr, ll), M(ll, ul)
    ce = ("ite", inc, M(ll, ur), M(ul, lr))
    return {
        (0, 0): (ul, to, ce, le),
        (1, 0): (to, ur, ri, ce),
        (0, 1): (le, ce, bo, ll),
        (1, 1): (ce, ri, lr, bo),
    }, ce


def div4_facts(project):
    """Evaluate toasty.toast._div4 -> list of (pos term, corners tuple, increasing term)."""
    f = project.fn(T + "._div4")
    ev = sym.make_evaluator(project, T, [], inline_local=True, no_inline=("mid",))
    ev.unroll = True
    r = ev.run(f.node)
    tile = ("sym", f.params()[0])
    if len(r.returns) != 1:
        return f, tile, None, r
    t = norm_mid(r.returns[0][1])
    if t[0] not in ("list", "tuple") or len(t[1]) != 4 or not all(x[0] == "nt" and x[1] == "Tile" for x in t[1]):
        return f, tile, None, r
    return f, tile, [x[2] for x in t[1]], r


def subsample_facts(project):
    """Evaluate the compiled _subsample through the .pyx front-end:
    {(row half, col half): corners tuple}, the base-case stores, diag term."""
    f = project.fn(L + "._subsample")
    ev = sym.make_evaluator(project, L, [])
    r = ev.run(f.node)
    calls = {}
    x_p, y_p = f.params()[4], f.params()[5]
    n2 = None
    for e in r.calls(name="_subsample"):
        a = e.term[2]
        if len(a) != 7:
            raise AnalysisError("_subsample recursive call with %d args" % len(a))
        corners = tuple(norm_mid(c) for c in a[:4])
        hx = _quadrant(a[4], x_p)
        hy = _quadrant(a[5], y_p)
        calls.setdefault(hx, []).append((corners, hy, a[6], e))
    return f, r, calls


def _quadrant(t, arr):
    """x[:n2, n2:] -> (row half, col half); None if not of that shape."""
    if t[0] != "sub" or t[1] != ("sym", arr) or t[2][0] != "tuple" or len(t[2][1]) != 2:
        return None
    out = []
    for sl in t[2][1]:
        if sl[0] != "slice" or sl[3] != sym.NONE:
            return None
        lo, hi = sl[1], sl[2]
        if lo == sym.NONE and hi != sym.NONE:
            out.append((0, hi))
        elif lo != sym.NONE and hi == sym.NONE:
            out.append((1, lo))
        else:
            return None
    if out[0][1] != out[1][1]:
        return None
    # the split point must be half of the array size
    half = out[0][1]
    if not (half[0] == "op" and half[1] == "floordiv" and num_value(half[2][1]) == 2):
        return None
    return (out[0][0], out[1][0])


def level1_table(project):
    """Literal degrees table: list of 4 tiles x 4 corners x (lon, lat), or None."""
    consts = project.module_constants(T)
    for name, v in consts.items():
        if isinstance(v, ast.Call) and (dotted(v.func) or "").endswith("radians") and v.args and isinstance(v.args[0], ast.List):
            rows = []
            try:
                for tile in v.args[0].elts:
                    cs = []
                    for c in tile.elts:
                        ok1, lon = try_const(c.elts[0])
                        ok2, lat = try_const(c.elts[1])
                        if not (ok1 and ok2):
                            return name, None, v
                        cs.append((lon, lat))
                    rows.append(cs)
            except (AttributeError, IndexError):
                return name, None, v
            return name, rows, v
    return None, None, None


def tile_construction_sites(project):
    """Every place that makes a Tile with corners: `Tile(...)` calls and `<tile>._replace(corners=...)` / `Tile._make(...)`.
    -> [(Func, call node, kind)]  (the documented corner-less level-0 tile is excluded)"""
    from sa.model import own_calls
    out = []
    for f in project.py_funcs():
        for c in own_calls(f.node):
            d = dotted(c.func) or ""
            last = d.split(".")[-1]
            if last == "Tile" and (c.args or c.keywords):
                corners = c.args[1] if len(c.args) > 1 else next((k.value for k in c.keywords if k.arg == "corners"), None)
                if isinstance(corners, ast.Tuple) and all(isinstance(e, ast.Constant) and e.value is None for e in corners.elts):
                    continue
                out.append((f, c, "Tile(...)"))
            elif last == "_replace" and any(k.arg == "corners" for k in c.keywords):
                out.append((f, c, "._replace(corners=...)"))
            elif d.endswith("Tile._make"):
                out.append((f, c, "Tile._make(...)"))
    return out



def _mentions_coordsys(t):
    """Does the term talk about a TOAST coordinate system (an enum member, a `coordsys` key / attribute)?"""
    if not isinstance(t, tuple) or not t:
        return False
    if t[0] == "attr" and (t[1] == ("sym", "ToastCoordinateSystem") or "coordsys" in t[2]):
        return True
    if t[0] == "const" and t[1] == "coordsys":
        return True
    if t[0] == "sym" and isinstance(t[1], str) and "coordsys" in t[1]:
        return True
    return any(_mentions_coordsys(x) for x in t if isinstance(x, tuple))


def coordsys_forwarding(run, rule, modules=None, only_callers=None):
    """Whoever has a coordinate system in hand passes it to every project function that takes one.  Package-wide: for every
    call site whose callee has a `coordsys` parameter (by parameter binding; keyword, positional or through **kwargs), a caller
    that itself receives `coordsys` must pass exactly that; a caller that computes one (from ToastCoordinateSystem members,
    from a `coordsys` entry of its keyword dictionary, from an attribute holding it) must pass *something* -- leaving it out
    makes the callee fall back to its default system.  Returns the number of call sites examined."""
    project = run.project
    n = 0
    evs = {}
    # names of the project functions that take a coordinate system, and the classes whose instances hold one in a field
    takers = {g.node.name for g in project.py_funcs() if "coordsys" in g.params()}
    holders = set()
    for g in project.py_funcs():
        if getattr(g, "cls", None) is None:
            continue
        for x in ast.walk(g.node):
            if isinstance(x, (ast.Assign, ast.AnnAssign, ast.AugAssign)):
                for tg in (x.targets if isinstance(x, ast.Assign) else [x.target]):
                    if isinstance(tg, ast.Attribute) and "coordsys" in tg.attr and isinstance(tg.value, ast.Name) and tg.value.id in ("self", "inst", "cls"):
                        holders.add((g.module.name, g.cls.name))
    for f in project.py_funcs():
        if "/tests/" in (f.module.relpath or "") or (modules is not None and f.module.name not in modules):
            continue
        if only_callers is not None and f.qual not in only_callers:
            continue
        src_names = {x.attr for x in ast.walk(f.node) if isinstance(x, ast.Attribute)} | {x.id for x in ast.walk(f.node) if isinstance(x, ast.Name)} \
            | {x.arg for x in ast.walk(f.node) if isinstance(x, ast.keyword) and x.arg} | set(f.params())
        holds_field = getattr(f, "cls", None) is not None and (f.module.name, f.cls.name) in holders and f.params()[:1] == ["self"]
        calls_taker = any(isinstance(x, ast.Call) and ((isinstance(x.func, ast.Attribute) and x.func.attr in takers) or (isinstance(x.func, ast.Name) and x.func.id in takers))
                          for x in ast.walk(f.node))
        if not any("coordsys" in (nm or "") for nm in src_names) and "ToastCoordinateSystem" not in src_names and not (holds_field and calls_taker):
            continue
        ev = evs.get(f.module.name)
        if ev is None:
            ev = evs[f.module.name] = sym.make_evaluator(project, f.module.name, [])
        ev.self_class = (f.module.name + "." + f.cls.name) if getattr(f, "cls", None) is not None else None
        try:
            r = ev.run(f.node)
        except Exception:
            continue
        own = ("sym", "coordsys") if "coordsys" in f.params() else None
        popped = set()      # keyword dictionaries from which the entry was taken out
        for e in r.events:
            if e.kind == "call" and e.term[1][0] == "attr" and e.term[1][2] == "pop" and e.term[2] and e.term[2][0] == ("const", "coordsys"):
                popped.add(e.term[1][1])
        knows = own is not None or holds_field or any(_mentions_coordsys(e.term) for e in r.events if e.kind in ("call", "assign", "store")) \
            or any(_mentions_coordsys(c) for e in r.events for c in e.pc)
        for e in r.events:
            if e.kind != "call":
                continue
            g, binding = ev.bound_args(e.term)
            if g is None or "coordsys" not in g.params():
                continue
            n += 1
            run.call_sites += 1
            run.note_func(f)
            star = [v for k, v in e.term[3] if k == "**"]
            if binding is None:
                run.undecided(rule, f, e.node, "cannot bind the arguments of %s" % show(e.term)[:80], kind="coordsys-binding")
            elif "coordsys" not in binding:
                if star and not any(sv in popped for sv in star):
                    run.holds(rule, f, e.node, "%s passes its keyword dictionary (with any coordsys entry) on to %s" % (f.short, g.short))
                elif knows:
                    run.violated(rule, f, e.node, "%s calls %s without the coordinate system it has in hand: the callee falls back to its default and works on the "
                                 "tiles of the other system" % (f.short, g.short), kind="coordsys-dropped", callee=g.short)
                else:
                    run.holds(rule, f, e.node, "%s has no coordinate system of its own; %s uses its documented default" % (f.short, g.short))
            elif own is not None and binding["coordsys"] != own:
                run.violated(rule, f, e.node, "%s passes coordsys=%s to %s instead of its own coordsys parameter" % (
                    f.short, show(binding["coordsys"])[:60], g.short), kind="coordsys-replaced", callee=g.short)
            else:
                run.holds(rule, f, e.node, "%s hands its coordinate system to %s" % (f.short, g.short))
    return n


# ---------------------------------------------------------------------------------------------------------------------
# The `mid` that the Python subdivision calls is the compiled great-circle midpoint - the routine the compiled pixel-grid
# recursion (`subsample`) uses itself.  A Python definition standing in for it must hand every pair of points to the
# compiled routine unchanged; a path that answers differently makes Python tiles and compiled grids / bounding boxes
# (and the children of a tile versus the tile) disagree for the arcs that take it.

def compiled_midpoint(run, rule):
    import ast
    project = run.project
    mod = project.mod(T)
    if mod is None:
        run.undecided(rule, None, None, "toasty.toast not found", kind="anchor", construct="toasty.toast")
        return
    compiled = {}      # local alias -> compiled name
    pydefs = {}
    rebinds = []
    for st in mod.tree.body:
        if isinstance(st, ast.ImportFrom) and (st.module or "").endswith("_libtoasty"):
            for a in st.names:
                compiled[a.asname or a.name] = a.name
        elif isinstance(st, ast.FunctionDef) and st.name in ("mid", "subsample"):
            pydefs[st.name] = st
        elif isinstance(st, ast.Assign):
            for t in st.targets:
                if isinstance(t, ast.Name) and t.id in ("mid", "subsample"):
                    rebinds.append((t.id, st))
        elif isinstance(st, ast.Try):
            for x in ast.walk(st):
                if isinstance(x, ast.ImportFrom) and (x.module or "").endswith("_libtoasty"):
                    for a in x.names:
                        compiled.setdefault(a.asname or a.name, a.name)
                if isinstance(x, ast.FunctionDef) and x.name in ("mid", "subsample"):
                    pydefs[x.name] = x
    f_div4 = project.fn(T + "._div4") if project.has(T + "._div4") else None
    for name in ("mid", "subsample"):
        if name in pydefs:
            fn = pydefs[name]
            q = T + "." + name
            func = project.fn(q) if project.has(q) else None
            alias = [a for a, c in compiled.items() if c == name]
            ok = None
            if func is not None and alias:
                ev = sym.make_evaluator(project, T, [], no_inline=tuple(alias))
                r = ev.run(func.node)
                params = [("sym", p) for p in func.params()]

                def leaves(t):
                    if isinstance(t, tuple) and t and t[0] == "ite":
                        return leaves(t[2]) + leaves(t[3])
                    return [t]
                vals = [v for _pc, v, _n in r.returns for v in leaves(v)] if r.returns else []
                good = [v for v in vals if v[0] == "call" and v[1][0] == "sym" and v[1][1] in alias and tuple(v[2]) == tuple(params[:len(v[2])]) and not v[3]]
                ok = bool(vals) and len(good) == len(vals)
                if vals and not ok:
                    other = [v for v in vals if v not in good][0]
                    run.violated(rule, func, fn, "toasty.toast.%s is a Python function standing in for the compiled routine and on some path answers %s instead of handing "
                                 "its arguments to the compiled %s: tiles subdivided in Python no longer agree with the compiled pixel-grid recursion (and a tile with its "
                                 "children) for the arcs that take that path" % (name, sym.show(other)[:80], name), kind="compiled-routine-shadowed", construct="toasty.toast." + name)
                    continue
            if ok:
                run.holds(rule, func, fn, "toasty.toast.%s is a pure pass-through to the compiled routine" % name)
            else:
                run.undecided(rule, func, fn, "toasty.toast.%s is defined in Python; cannot show that it is the compiled routine" % name, kind="compiled-routine-shadowed",
                              construct="toasty.toast." + name)
        elif [b for b in rebinds if b[0] == name]:
            run.undecided(rule, f_div4, [b for b in rebinds if b[0] == name][0][1], "toasty.toast.%s is rebound at module level" % name, kind="compiled-routine-shadowed",
                          construct="toasty.toast." + name)
        elif name in compiled and compiled[name] == name:
            run.holds(rule, f_div4, None, "toasty.toast.%s is the routine imported from the compiled module" % name)
        else:
            run.undecided(rule, f_div4, None, "toasty.toast.%s is not imported from the compiled module" % name, kind="compiled-routine-shadowed", construct="toasty.toast." + name)
