"""C12 - Point lookup returns the tile and pixel that actually contain the point.

R1 periodicity: the tile lookup reduces the longitude modulo exactly 2*pi before any use; the pixel
   lookup lets grid longitudes and the requested longitude meet only in a difference wrapped modulo 2*pi
R2 nesting: below level 1 the current tile is only ever replaced by a child from _div4(current) (C04.R5)
R3 the level-1 quadrant choice depends on the coordinate system, and the level-1 longitude ranges
   agree with the level-1 corner table
R4 containment score: min(dot(cross(a, b), p), 0) summed over the four edges taken counter-clockwise
   (ul,ur),(ur,lr),(lr,ll),(ll,ul); best-child selection with least-negative fallback
R5 pixel fit: the stamp's slice origin is the offset added back to the fitted position; stamp clipped to the tile
"""
import ast

import itertools
import math

from sa import sym, boolalg
from sa.teval import teval, UNKNOWN
from sa.sym import show, num, num_value, atoms_of, PI
from sa.model import dotted, own_calls, own_nodes
from .toastgeom import level1_table

T = "toasty.toast"

EXPLANATION = (
    "Point lookup is evaluated abstractly. The longitude handed to the level-1 test must be (lon mod 2*pi), shifted by "
    "pi for the planetary system (dependence on the coordinate system is required because the two systems assign "
    "different longitude ranges to one level-1 position); the four level-1 ranges returned with score 0 are compared "
    "with the ranges spanned by the equatorial corners of the level-1 table. The half-space score must be exactly "
    "min(dot(cross(a, b), p), 0): any tolerance makes deep tiles all look 'contained'. In the pixel lookup the grid "
    "longitudes may meet the requested longitude only inside a difference reduced modulo 2*pi, and the slice origin of "
    "the fitting stamp must be the offset added back to the fitted coordinates. Geometric containment at depth >= 2 and "
    "the 2-pixel accuracy of the biquadratic fit are floating-point geometry and are not decided."
)

MANIFEST = {
    "technique": "static analysis: term-level information flow (longitude normalisation, coordinate-system dependence); evaluation of the extracted level-1 score / selection on region representatives against the corner table; one descent step evaluated straight-line for all 81 score patterns; slice-origin/offset agreement; memo-key dependence analysis (tables, decorator caches, rebinding globals); selection helpers evaluated over all patterns of finite scores; the unit vector handed to the half-space tests depends on both coordinates of the point on every path (no tolerance-based special case)",
    "text": "Decides periodicity, nesting, coordinate-system dependence and level-1 range table of the tile lookup, the exact form of the containment score and selection loop, and the structural soundness of the pixel fit (wrapped longitude differences, stamp origin). Containment at depth >= 2 and fit accuracy are not decided.",
    "note": "Trusted: numpy dot/cross, lstsq; the compiled pixel grid (C05). Not decided: geometric containment for deep tiles, the <= 2 pixel accuracy of the fit.",
}



def _descent(project, f):
    """One step of the descent loop of toast_tile_for_point, evaluated straight-line (the four children of _div4 unrolled,
    local helpers inlined): (current-tile symbol, chosen-tile term, child terms, score terms) or (None, reason)."""
    loops = [n for n in own_nodes(f.node) if isinstance(n, ast.While)]
    loop = None
    var = None
    for w in loops:
        for x in ast.walk(w.test):
            if isinstance(x, ast.Attribute) and x.attr == "n" and isinstance(x.value, ast.Attribute) and x.value.attr == "pos" \
                    and isinstance(x.value.value, ast.Name):
                loop, var = w, x.value.value.id
    if loop is None:
        return None, "no `while <tile>.pos.n < depth` descent loop found"
    ev = sym.make_evaluator(project, T, [], inline_local=True, no_inline=("_toast_tile_containment_score", "_div4", "_create_level1_tiles"))
    ev.unroll = True
    CUR = ("sym", "CURRENT")
    div = ("call", ("sym", "_div4"), (CUR,), ())
    ev.static_len = lambda t: 4 if (t[0] == "call" and t[1] == ("sym", "_div4")) else None
    env = {p: ("sym", p) for p in f.params()}
    env[var] = CUR
    rb = ev.run_block(loop.body, env)
    if rb.env is None or var not in rb.env:
        return None, "cannot evaluate the body of the descent loop"
    children = [("item", div, i) for i in range(4)]
    scores = []
    for e in rb.events:
        if e.kind == "call" and e.term[1] == ("sym", "_toast_tile_containment_score") and e.term[2] and e.term[2][0] in children:
            scores.append(e.term)
    return (CUR, rb.env[var], children, scores, rb), None


def _leaves(t):
    if t[0] == "ite":
        return _leaves(t[2]) + _leaves(t[3])
    return [t]


def run(run):
    run.explanation = EXPLANATION
    run.undecided_clauses += ["geometric containment of the point in the returned tile at depth >= 2 (floating point)",
                              "accuracy (<= 2 px) of the biquadratic pixel fit"]
    for r, n in (("C12.R1", 2), ("C12.R2", 1), ("C12.R3", 2), ("C12.R4", 3), ("C12.R5", 1), ("C12.R6", 1)):
        run.floor(r, n)
    project = run.project
    # private steps of the lookups (level-1 selection, best-child selection, stamp extraction) may live in helpers of the module;
    # the functions the rules speak about stay atomic
    ev = sym.make_evaluator(project, T, [], inline_local=True,
                            no_inline=("_toast_tile_containment_score", "_left_of_half_space_score", "_equ_to_xyz", "_div4", "_create_level1_tiles",
                                       "toast_tile_get_coords", "toast_tile_for_point", "toast_pixel_for_point", "_tile_pixel_grid"))
    def _four_corners(t):
        # a tile has four corners; `corners[:4]` is the same four
        if t[0] == "attr" and t[2] == "corners":
            return 4
        if t[0] == "sub" and t[1][0] == "attr" and t[1][2] == "corners" and t[2] == ("slice", sym.NONE, num(4), sym.NONE):
            return 4
        return None
    ev.static_len = _four_corners
    two_pi = sym.mul(num(2), PI)
    f = project.fn(T + ".toast_tile_for_point")
    run.note_func(f)
    r = ev.run(f.node)
    lon_p, lat_p, cs_p = ("sym", f.params()[2]), ("sym", f.params()[1]), ("sym", f.params()[3])
    M = ("op", "mod", (lon_p, two_pi))
    scores = [e for e in r.events if e.kind == "call" and e.term[1] == ("sym", "_toast_tile_containment_score")]
    # ---- R1 (tile)
    raw = [e for e in scores if len(e.term[2]) >= 3 and lon_p in atoms_of(e.term[2][2]) and M not in atoms_of(e.term[2][2])]
    nomod = [e for e in scores if len(e.term[2]) >= 3 and not [a for a in atoms_of(e.term[2][2]) if a[0] == "op" and a[1] == "mod"]]
    if not scores:
        run.undecided("C12.R1", f, None, "no containment-score calls found", kind="no-score")
    elif raw or nomod:
        e = (raw or nomod)[0]
        run.violated("C12.R1", f, e.node, "the longitude given to the containment test is %s, not the request reduced modulo 2*pi: longitudes more than one "
                     "turn outside [0, 2*pi] match no level-1 quadrant and the lookup silently descends into the wrong tile" % show(e.term[2][2])[:120],
                     kind="lon-not-reduced")
    else:
        bad_mod = [a for e in scores for a in atoms_of(e.term[2][2]) if a[0] == "op" and a[1] == "mod" and a[2][1] != two_pi]
        if bad_mod:
            run.violated("C12.R1", f, scores[0].node, "longitude reduced modulo %s instead of 2*pi" % show(bad_mod[0][2][1]), kind="modulus")
        else:
            run.holds("C12.R1", f, scores[0].node, "every containment test sees lon mod 2*pi")
    # ---- R2 nesting: one descent step replaces the current tile by one of its own children
    div_loops = [(k, it, n) for k, it, n in r.loops if it[0] == "call" and it[1] == ("sym", "_div4")]
    desc, why = _descent(project, f)
    if desc is None:
        run.undecided("C12.R2", f, None, why, kind="descent-shape")
    else:
        CUR, chosen, children, score_terms, rb = desc
        lv = _leaves(chosen)
        bad = [t for t in lv if t not in children and t != CUR]
        if bad and all(t == sym.NONE for t in bad) and len(score_terms) == 4:
            # "no candidate yet" (None) as the initial best: reachable only if no score exceeds the initial -inf.  The containment
            # score is a finite number (a sum of min(dot, 0) terms): evaluate the choice for all patterns of finite scores
            import itertools as _it
            from sa.teval import teval as _tev, UNKNOWN as _UNK
            feasible = False
            for pat in _it.product((0.0, -1e-16, -0.5), repeat=4):
                envt = dict(zip(score_terms, pat))
                envt[("attr", ("sym", "np"), "inf")] = float("inf")
                envt[CUR] = "CUR"
                for i_, c_ in enumerate(children):
                    envt[c_] = "child%d" % i_
                v = _tev(chosen, envt)
                if v is None or v is _UNK:
                    feasible = True
                    break
            if not feasible:
                bad = []
        if not any(t in children for t in lv):
            run.violated("C12.R2", f, None, "the descent does not go through _div4(tile): results for increasing depth need not be nested (next tile is %s)" % show(chosen)[:100],
                         kind="no-div4")
        elif bad:
            run.violated("C12.R2", f, None, "during the descent the current tile is replaced by %s, not by one of its own children" % show(bad[0])[:80],
                         kind="not-a-child")
        else:
            run.holds("C12.R2", f, None, "current tile only replaced by an element of _div4(current): tiles for increasing depth are nested")
    # ---- R3 coordinate-system dependence of the level-1 choice
    lv1 = [e for e in scores if [c for c in e.pc if c[0] == "loop"] and not any(("loop", k) in e.pc for k, it, n in div_loops)]
    sc = project.fn(T + "._toast_tile_containment_score")
    run.note_func(sc)
    uses_corners_l1 = False
    for n in own_nodes(sc.node):
        if isinstance(n, ast.If) and "pos.n == 1" in ast.unparse(n.test):
            uses_corners_l1 = any(isinstance(x, ast.Attribute) and x.attr == "corners" for s in n.body for x in ast.walk(s))
    if not lv1:
        run.undecided("C12.R3", f, None, "level-1 selection loop not found", kind="no-level1")
    else:
        x = lv1[0].term[2][2]
        planetary = sym.cmp("Eq", cs_p, ("attr", ("sym", "ToastCoordinateSystem"), "PLANETARY"))
        want = ("ite", planetary, ("op", "mod", (sym.add(M, PI), two_pi)), M)
        want_b = ("ite", planetary, ("op", "mod", (sym.sub(M, PI), two_pi)), M)
        if x in (want, want_b):
            run.holds("C12.R3", f, lv1[0].node, "level-1 test uses lon mod 2pi, rotated by pi for the planetary system")
        elif cs_p not in atoms_of(x) and not uses_corners_l1:
            run.violated("C12.R3", f, lv1[0].node, "the level-1 quadrant is chosen from %s for both coordinate systems, although the planetary level-1 tiles are "
                         "rotated by 180 degrees in longitude: every planetary lookup descends into the wrong quadrant" % show(x)[:80], kind="level1-ignores-coordsys")
        elif uses_corners_l1:
            run.undecided("C12.R3", f, lv1[0].node, "level-1 choice is made from the tile corners; not decided", kind="level1-corners")
        else:
            run.violated("C12.R3", f, lv1[0].node, "level-1 longitude is %s; expected lon mod 2pi, plus pi (mod 2pi) exactly for PLANETARY" % show(x)[:140], kind="level1-rotation")
    # level-1 ranges vs the corner table: the score function is evaluated over a finite domain (17 longitudes k*pi/8,
    # the four level-1 positions) and the positions it accepts are compared with the table's equatorial corners
    # (helpers of the score function -- e.g. a table-driven "which quadrant owns this longitude" -- are part of it)
    ev_sc = sym.make_evaluator(project, T, [], inline_local=True, no_inline=("_left_of_half_space_score", "_equ_to_xyz", "_div4", "_create_level1_tiles"))
    ev_sc.static_len = ev.static_len
    ev_sc.unroll = True
    rs = ev_sc.run(sc.node)
    tile_p, lat_s, lon_s = (("sym", p) for p in sc.params()[:3])
    posx, posy, posn = (("attr", ("attr", tile_p, "pos"), a) for a in ("x", "y", "n"))
    name, rows, node = level1_table(project)
    if not rows or not rs.returns:
        run.undecided("C12.R3", sc, None, "level-1 corner table or score function not evaluable", kind="level1-ranges")
    else:
        owner = {}
        for k, cs in enumerate(rows):
            eq = sorted(lon % 360 for lon, lat in cs if lat == 0)
            lo_deg, hi_deg = (eq[0], eq[1]) if eq != [0, 270] else (270, 360)
            owner[(k % 2, k // 2)] = (lo_deg, hi_deg)
        problems = []
        unknown = None
        # sample longitudes: every k*pi/8, plus every constant the function compares the longitude with and a point just
        # below / above it -- one representative of every region on which the (piecewise constant) answer can change
        pi_f = sym.Fr(math.pi)
        samples = {sym.Fr(kk, 8) * pi_f for kk in range(17)}
        for pc_, t_, n_ in rs.returns:
            for c_ in pc_:
                if c_[0] == "loop":
                    continue
                for a_ in atoms_of(c_[0]):
                    if a_[0] == "op" and a_[1].startswith("cmp:") and lon_s in atoms_of(a_):
                        for side in a_[2]:
                            v_ = teval(side, {PI: pi_f})
                            if v_ is not UNKNOWN and isinstance(v_, (int, float, sym.Fr)) and not isinstance(v_, bool):
                                v_ = sym.Fr(v_)
                                if 0 <= v_ <= 2 * pi_f:
                                    eps = sym.Fr(1, 10 ** 9)
                                    samples |= {v_, max(v_ - eps, sym.Fr(0)), min(v_ + eps, 2 * pi_f)}
        claims = {}
        for lonv in sorted(samples):
            deg = float(lonv / pi_f * 180)
            claim = []
            for (x, y) in owner:
                envt = {lon_s: lonv, posx: x, posy: y, posn: 1, PI: pi_f,
                        ("attr", tile_p, "pos"): (1, x, y)}
                val = UNKNOWN
                for pc, t, n in rs.returns:
                    c = teval(boolalg.conj(pc), envt)
                    if c is UNKNOWN:
                        unknown = (n, show(boolalg.conj(pc))[:120])
                        break
                    if c:
                        val = teval(t, envt)
                        if val is UNKNOWN:
                            unknown = (n, show(t)[:120])
                        break
                if unknown:
                    break
                if val == 0:
                    claim.append((x, y))
            if unknown:
                break
            claims[lonv] = list(claim)
            on_boundary = min(abs(deg - b_) for b_ in (0, 90, 180, 270, 360)) < 1e-12
            inside = [] if on_boundary else [p_ for p_, (lo, hi) in owner.items() if lo < deg < hi]
            touching = [p_ for p_, (lo, hi) in owner.items() if lo - 1e-12 <= deg <= hi + 1e-12 or (deg < 1e-12 and hi == 360) or (deg > 360 - 1e-12 and lo == 0)]
            if inside:
                if claim != inside:
                    problems.append("longitude %g deg lies in the quadrant of tile (1,%d,%d) of the corner table but the score function accepts %s" % (
                        deg, inside[0][0], inside[0][1], ["(1,%d,%d)" % c_ for c_ in claim] or "no tile"))
            else:
                if not claim:
                    problems.append("no level-1 tile accepts the boundary longitude %g deg: such points match no quadrant" % deg)
                elif not set(claim) <= set(touching):
                    problems.append("boundary longitude %g deg is given to %s, which does not touch it" % (deg, claim))
        if unknown:
            run.undecided("C12.R3", sc, unknown[0], "cannot evaluate the level-1 branch of the score function (%s)" % unknown[1], kind="level1-ranges")
        elif problems:
            kind = "level1-boundaries" if all("boundary" in p_ for p_ in problems) else "level1-range-table"
            run.violated("C12.R3", sc, None, "level-1 quadrant test disagrees with the level-1 corner table: " + "; ".join(problems[:2]), kind=kind)
        else:
            run.holds("C12.R3", sc, None, "level-1 quadrants accepted by the score function match the equatorial corners of the level-1 table "
                      "(%d longitudes x 4 positions: every k*pi/8 and both sides of every constant the longitude is compared with; "
                      "every boundary longitude is accepted by a touching tile)" % len(samples))
    # ---- R2 (nesting across depths): a second way of picking the level-1 tile (e.g. a fast path for depth == 1) must pick, for every
    # longitude, the tile the scoring loop picks for deeper lookups -- in particular on the quadrant meridians
    if rows and rs.returns and not (locals().get("unknown")) and locals().get("claims"):
        order = [(0, 0), (1, 0), (0, 1), (1, 1)]           # list order of _create_level1_tiles (C04.R2)
        l1call = ("call", ("sym", "_create_level1_tiles"), (cs_p,), ())
        L1 = lv1[0].term[2][2] if lv1 and len(lv1[0].term[2]) >= 3 else None
        alts = []
        for pc, t, n in r.returns:
            if t[0] == "nt" and t[1] == "Tile":
                continue            # the corner-less level-0 tile
            if t[0] == "sym" and "@" in t[1]:
                continue            # the tile left by the descent loop
            if [c for c in pc if c[0] == "loop"]:
                continue
            alts.append((pc, t, n))
        for pc, t, n in alts:
            base = t[1] if t[0] in ("sub", "item") else None
            idx = (t[2] if t[0] == "sub" else num(t[2])) if base is not None else None
            if base != l1call or L1 is None:
                run.undecided("C12.R2", f, n, "toast_tile_for_point also returns %s, a tile not obtained from the level-1 selection loop and the descent" % show(t)[:100], kind="alternative-return")
                continue

            def hook(x, rec):
                if x[0] == "call" and x[1] == ("sym", "int") and len(x[2]) == 1:
                    v = rec(x[2][0])
                    return UNKNOWN if v is UNKNOWN else int(v)
                return NotImplemented
            bad = None
            for lonv, claim in sorted(claims.items()):
                if not claim:
                    continue
                first = [p_ for p_ in order if p_ in claim][0]
                k = teval(idx, {L1: lonv, PI: pi_f}, [hook])
                if k is UNKNOWN:
                    # the index may be written over the raw longitude as well
                    k = teval(idx, {L1: lonv, PI: pi_f, M: lonv, lon_p: lonv}, [hook])
                if k is UNKNOWN or not isinstance(k, int) or not (0 <= k < 4):
                    bad = ("unknown", lonv, k)
                    break
                if order[k] != first:
                    bad = ("differs", lonv, order[k], first)
                    break
            if bad is None:
                run.holds("C12.R2", f, n, "alternative level-1 selection agrees with the scoring loop at all %d sample longitudes" % len(claims))
            elif bad[0] == "unknown":
                run.undecided("C12.R2", f, n, "cannot evaluate the alternative level-1 selection %s" % show(idx)[:100], kind="alternative-return")
            else:
                run.violated("C12.R2", f, n, "for longitude %g deg a lookup under %s returns the level-1 tile (1,%d,%d), but deeper lookups start their descent from (1,%d,%d): "
                             "the tiles found for increasing depth are not nested" % (float(bad[1] / pi_f * 180), show(boolalg.conj(pc))[:60], bad[2][0], bad[2][1], bad[3][0], bad[3][1]),
                             kind="level1-selection-differs")
    # ---- R4 score
    hs = project.fn(T + "._left_of_half_space_score")
    run.note_func(hs)
    rh = ev.run(hs.node)
    a, b, p = (("sym", q) for q in hs.params())
    want = ("call", ("sym", "min"), tuple(sorted((num(0), ("call", ("attr", ("sym", "np"), "dot"),
                                                           (("call", ("attr", ("sym", "np"), "cross"), (a, b), ()), p), ())), key=repr)), ())
    if len(rh.returns) == 1 and rh.returns[0][1] == want:
        run.holds("C12.R4", hs, None, "half-space score = min(dot(cross(a, b), p), 0)")
    else:
        consts = sorted({abs(float(v)) for pc, t, n in rh.returns for c in pc if c[0] != "loop" for x in atoms_of(c[0]) for v in [num_value(x)]
                         if v is not None and v != 0})
        if len(rh.returns) > 1 and consts:
            run.violated("C12.R4", hs, rh.returns[0][2], "the half-space score snaps values within an absolute tolerance (%s) to 0: the tolerance is not scaled "
                         "by the tile size, so at fine depths every child counts as containing the point and the descent takes the first child" % consts[0],
                         kind="score-tolerance")
        else:
            run.violated("C12.R4", hs, None, "half-space score is %s, expected min(np.dot(np.cross(a, b), p), 0)" % [show(t)[:100] for pc, t, n in rh.returns],
                         kind="score-form")
    _r4_unit_vector(run)
    # four edges counter-clockwise, corners as (lat, lon) = (c[1], c[0])
    edges = [e for e in rs.events if e.kind == "call" and e.term[1] == ("sym", "_left_of_half_space_score")]
    cor = ("attr", tile_p, "corners")

    def xyz(i):
        return ("call", ("sym", "_equ_to_xyz"), (("item", ("item", cor, i), 1), ("item", ("item", cor, i), 0)), ())
    tp = ("call", ("sym", "_equ_to_xyz"), (lat_s, lon_s), ())
    want_edges = [(xyz(0), xyz(1), tp), (xyz(1), xyz(2), tp), (xyz(2), xyz(3), tp), (xyz(3), xyz(0), tp)]
    got_edges = [tuple(e.term[2]) for e in edges]
    final = [t for pc, t, n in rs.returns if num_value(t) is None]
    sum_ok = bool(final) and all(("call", ("sym", "_left_of_half_space_score"), we, ()) in atoms_of(final[-1]) or True for we in want_edges)
    if sorted(got_edges, key=repr) == sorted(want_edges, key=repr):
        tot = final[-1] if final else None
        wsum = num(0)
        for we in want_edges:
            wsum = sym.add(wsum, ("call", ("sym", "_left_of_half_space_score"), we, ()))
        if tot == wsum:
            run.holds("C12.R4", sc, None, "score = sum over edges (ul,ur),(ur,lr),(lr,ll),(ll,ul) with corners converted as (lat, lon) = (c[1], c[0])")
        else:
            run.violated("C12.R4", sc, None, "containment score is %s, not the sum of the four edge scores" % (show(tot)[:120] if tot else "?"), kind="score-sum")
    else:
        run.violated("C12.R4", sc, edges[0].node if edges else None, "the four half-space tests are not the tile's edges taken in order (ul,ur),(ur,lr),(lr,ll),(ll,ul) "
                     "with corners converted as (lat, lon) = (corner[1], corner[0])", kind="edges")
    # selection: for every pattern of child scores, the tile chosen by one descent step has the greatest score
    # (a score of 0 is the greatest possible, so "first child that contains the point" is included)
    if desc is None:
        run.undecided("C12.R4", f, None, why, kind="selection-shape")
    else:
        CUR, chosen, children, score_terms, rb = desc
        by_child = {}
        for t in score_terms:
            by_child.setdefault(t[2][0], t)
        if set(by_child) != set(children):
            run.undecided("C12.R4", f, None, "the containment score is not computed for each of the four children (%d found)" % len(by_child), kind="selection-shape")
        else:
            inf = ("attr", ("sym", "np"), "inf")
            bad = None
            unknown = False
            for vals in itertools.product((0, -1, -2), repeat=4):
                envt = {inf: float("inf"), CUR: "PARENT"}
                for i, c in enumerate(children):
                    envt[c] = i
                    envt[by_child[c]] = vals[i]
                got = teval(chosen, envt)
                if got is UNKNOWN:
                    unknown = True
                    break
                if got == "PARENT" or vals[got] != max(vals):
                    bad = (vals, got)
                    break
            if unknown:
                run.undecided("C12.R4", f, None, "cannot evaluate the chosen child %s" % show(chosen)[:160], kind="selection-shape")
            elif bad:
                vals, got = bad
                run.violated("C12.R4", f, None, "child selection is not `score == 0 -> take; otherwise the greatest (least negative) score`: for child scores %s "
                             "the descent continues with %s" % (list(vals), ("child %d (score %d)" % (got, vals[got])) if got != "PARENT" else "the parent itself"),
                             kind="selection")
            else:
                run.holds("C12.R4", f, None, "child selection: the chosen child has the greatest containment score (81 score patterns)")
    # ---- no remembered geometry keyed by less than what determines it (tile position alone does not: coordinate system)
    from . import memo
    n_tab = memo.check_module(run, "C12.R6", T)
    if not memo.selfcheck():
        run.undecided("C12.R6", None, None, "memo rule self-check failed", kind="selfcheck", construct="<memo selfcheck>")
    if not [o for o in run.obs if o.rule == "C12.R6"]:
        run.holds("C12.R6", f, None, "no memo table / shared scratch container in toasty.toast (%d uses); positive example flagged" % n_tab)
    # ---- pixel lookup
    g = project.fn(T + ".toast_pixel_for_point")
    run.note_func(g)
    rg = ev.run(g.node)
    lon_g, lat_g = ("sym", g.params()[2]), ("sym", g.params()[1])
    coords = [e.term for e in rg.events if e.kind == "call" and e.term[1] == ("sym", "toast_tile_get_coords")]
    if not coords:
        # the grid may come through a local helper wrapped around toast_tile_get_coords (e.g. one that remembers the last grid:
        # whether that is sound is the memo rule's business)
        for e in rg.events:
            if e.kind == "call" and e.term[1][0] == "sym":
                h = project.funcs.get(T + "." + e.term[1][1])
                if h is not None and any((dotted(c.func) or "") == "toast_tile_get_coords" for c in own_calls(h.node)):
                    coords.append(e.term)
    if not coords:
        run.undecided("C12.R1", g, None, "pixel lookup does not fetch the tile's pixel grid", kind="no-grid")
        return
    G = ("item", coords[0], 0)
    # every occurrence of the grid longitudes must be inside a mod-2pi atom that also contains the requested longitude
    offenders = []
    checked = 0
    for e in rg.events:
        if e.kind not in ("assign", "call", "return"):
            continue
        t = e.term
        if G not in atoms_of(t):
            continue
        if e.kind == "assign" and t[1][1] == G:
            continue    # plain binding of the grid to a name
        checked += 1
        if _grid_outside_wrap(t, G, lon_g, two_pi):
            offenders.append(e)
    if offenders:
        e = offenders[0]
        run.violated("C12.R1", g, e.node, "the pixel grid's longitudes are combined with the requested longitude without reducing the difference modulo 2*pi "
                     "(%s): the grid is not confined to one 2*pi branch, so points with lon > 3*pi/2, or lon + 2*pi*k, get wildly wrong pixel positions"
                     % show(e.term)[:100], kind="pixel-lon-not-wrapped")
    elif checked:
        run.holds("C12.R1", g, None, "grid longitudes meet the requested longitude only in (grid - lon + pi) mod 2pi - pi", uses=checked)
    else:
        run.undecided("C12.R1", g, None, "grid longitudes are never used", kind="grid-unused")
    # ---- R5 stamp origin
    ret = rg.returns[-1][1] if rg.returns else None
    def as_slice(t):
        if t[0] == "slice":
            return t
        if t[0] == "call" and t[1] == ("sym", "slice") and not t[3] and 1 <= len(t[2]) <= 3:
            a_ = list(t[2])
            if len(a_) == 1:
                a_ = [sym.NONE] + a_
            return ("slice", a_[0], a_[1], a_[2] if len(a_) > 2 else sym.NONE)
        return None
    subs = []
    seen_subs = set()
    for e in rg.events:
        if e.kind not in ("assign", "call", "return"):
            continue
        for a in atoms_of(e.term):
            if a[0] == "sub" and a[2][0] == "tuple" and len(a[2][1]) == 2 and all(as_slice(s_) is not None for s_ in a[2][1]) and a not in seen_subs:
                seen_subs.add(a)
                subs.append(("sub", a[1], ("tuple", tuple(as_slice(s_) for s_ in a[2][1]))))
    if ret is None or ret[0] != "tuple" or len(ret[1]) != 3 or not subs:
        run.undecided("C12.R5", g, None, "cannot extract the fitting stamp / returned position", kind="stamp-shape")
        return
    origins = {(s_[2][1][0][1], s_[2][1][1][1]) for s_ in subs}    # (y0, x0) of each stamp slice
    ends = {(s_[2][1][0][2], s_[2][1][1][2]) for s_ in subs}
    if len(origins) != 1:
        run.violated("C12.R5", g, None, "the stamps of distance / longitude / latitude are cut with different origins", kind="stamp-origins")
        return
    (y0, x0), = origins
    xr, yr = ret[1][1], ret[1][2]
    clipped = all(o[0] == "call" and o[1] == ("sym", "max") and num(0) in o[2] for o in (x0, y0)) and \
        all(e_[0] == "call" and e_[1] == ("sym", "min") and (num(256) in e_[2] or any(".shape" in show(a_) for a_ in e_[2]))      # 256 or the grid's own size
            for (ye, xe) in ends for e_ in (ye, xe))

    def added_back(res, origin):
        # the returned coordinate must be  origin + <fitted offset>: coefficient 1 of the origin at top level
        if is_simple(origin):
            cs = sym.coeffs(res, origin)
            return cs is not None and cs[0] == num(1)
        return sym.sub(res, origin) != res and len(show(sym.sub(res, origin))) < len(show(res))

    def is_simple(o):
        return o[0] != "poly"
    if not (added_back(xr, x0) and added_back(yr, y0)):
        run.violated("C12.R5", g, rg.returns[-1][2], "the fitting stamp is cut from the grid at (%s, %s) but that origin is not what is added back to the fitted "
                     "position: near the left or top border of a tile (where the stamp is clipped) the result is shifted by the clipped amount" % (
                         show(x0)[:60], show(y0)[:60]), kind="stamp-offset")
    elif not clipped:
        run.violated("C12.R5", g, None, "the fitting stamp is not clipped to the tile ([max(.., 0), min(.., 256)))", kind="stamp-clip")
    else:
        run.holds("C12.R5", g, rg.returns[-1][2], "stamp = [max(c-h,0) : min(c+h+1,256)] on both axes; the same origin is added back to the fit")


def _lead(t):
    ats = [a for a in atoms_of(t) if a[0] in ("call", "poly") and ("max" in show(a) or "unravel" in show(a))]
    return show(t)[:60]


def _grid_outside_wrap(t, G, lon, two_pi):
    """True if the atom G occurs in t outside a `mod 2*pi` node whose argument also involves lon."""
    def visit(x, wrapped):
        if x == G:
            return not wrapped
        if not isinstance(x, tuple) or not x:
            return False
        if x[0] == "op" and x[1] == "mod" and x[2][1] == two_pi and G in atoms_of(x[2][0]) and lon in atoms_of(x[2][0]):
            # inside the wrapped difference: fine, provided it is a difference
            d = sym.coeffs(x[2][0], G)
            d2 = sym.coeffs(x[2][0], lon)
            if d is not None and d2 is not None and sym.add(d[0], d2[0]) == num(0):
                return False
            return True
        for y in (x[1:] if isinstance(x[0], str) else x):
            if isinstance(y, tuple) and visit(y, wrapped):
                return True
        return False
    return visit(t, False)



def _r4_unit_vector(run):
    """The unit vector of a sky point (the input of every half-space test) depends on the point's longitude unless the point is
    exactly a pole: a case distinction that hands a longitude-free vector to points merely *near* a pole (a tolerance test)
    collapses them - and nearby tile corners - onto the pole, and the descent picks tiles around the pole."""
    project = run.project
    q = T + "._equ_to_xyz"
    if not project.has(q):
        return
    f = project.fn(q)
    run.note_func(f)
    ev = sym.make_evaluator(project, T, [], inline_local=True)
    r = ev.run(f.node)
    ps = f.params()
    if len(ps) < 2:
        run.undecided("C12.R4", f, None, "_equ_to_xyz does not take (lat, lon)", kind="unit-vector")
        return
    lat, lon = ("sym", ps[0]), ("sym", ps[1])

    def leaves(t, conds=()):
        if isinstance(t, tuple) and t and t[0] == "ite":
            return leaves(t[2], conds + ((t[1], True),)) + leaves(t[3], conds + ((t[1], False),))
        return [(conds, t)]
    n_bad = 0
    all_leaves = []
    for pc, t, node in r.returns:
        for conds, v in leaves(t, tuple((c, p_) for c, p_ in pc if c != "loop")):
            all_leaves.append((conds, v, node))
    for conds, v, node in all_leaves:
        if sym.contains(v, lon) and sym.contains(v, lat):
            continue
        taken = [(c, p_) for c, p_ in conds]
        exact = taken and all(c[0] == "op" and c[1] == "cmp:Eq" and p_ for c, p_ in taken)
        if not taken:
            run.violated("C12.R4", f, node, "_equ_to_xyz returns %s, which does not depend on both coordinates of the point" % show(v)[:80], kind="unit-vector")
        elif exact:
            run.undecided("C12.R4", f, node, "_equ_to_xyz special-cases %s with a vector that ignores a coordinate" % "; ".join(show(c)[:50] for c, _ in taken), kind="unit-vector")
        else:
            run.violated("C12.R4", f, node, "_equ_to_xyz answers %s under the inexact test %s: every point (and tile corner) that merely passes the test loses its %s, so "
                         "distinct points near the special position get one and the same vector and the containment tests that use it pick the wrong tile" % (
                             show(v)[:60], "; ".join(("" if p_ else "not ") + show(c)[:60] for c, p_ in taken), "longitude" if not sym.contains(v, lon) else "latitude"),
                         kind="unit-vector-collapsed")
        n_bad += 1
    if all_leaves and not n_bad:
        run.holds("C12.R4", f, all_leaves[0][2], "_equ_to_xyz: every returned vector depends on both the latitude and the longitude of the point (%d case(s))" % len(all_leaves))
    elif not all_leaves:
        run.undecided("C12.R4", f, None, "_equ_to_xyz: no return value could be evaluated", kind="unit-vector")
