#!/venv/bin/python
"""Static checks of the toasty properties C01..C20.

usage: check.py --property Cxx [--tier quick|thorough] [--repo /repo]
       check.py --replay <replay.json>

exit 0: every obligation holds (known findings are printed as KNOWN-FINDING)
exit 1: a definite counter-construct was found: VIOLATION property=<id> replay=<path>
exit 2: the analysis could not decide (ANALYSIS-ERROR ...): unknown idiom,
        vanished anchor, vacuity floor not met, analyser crash, self-test miss
"""
import argparse
import importlib
import json
import os
import sys
import time
import traceback

HERE = os.path.dirname(os.path.abspath(__file__))
sys.path.insert(0, HERE)
sys.dont_write_bytecode = True

from sa.model import Project, AnalysisError  # noqa: E402
from sa import report  # noqa: E402

KNOWN = os.path.join(HERE, "known_findings.json")


def run_property(prop, project, tier):
    mod = importlib.import_module("rules." + prop)
    run = report.Run(prop, project, tier)
    mod.run(run)
    return run


def main(argv=None):
    ap = argparse.ArgumentParser()
    ap.add_argument("--property")
    ap.add_argument("--tier", default=os.environ.get("VERIF_TIER", "quick"), choices=["quick", "thorough"])
    ap.add_argument("--repo", default=os.environ.get("VERIF_REPO", "/repo"))
    ap.add_argument("--replay")
    ap.add_argument("--no-selftest", action="store_true")
    ap.add_argument("--no-write", action="store_true", help="do not write evidence/replay files")
    args = ap.parse_args(argv)
    t0 = time.time()
    seed = int(os.environ.get("VERIF_SEED", "0") or 0)

    if args.replay:
        with open(args.replay) as f:
            rp = json.load(f)
        args.property = rp["property"]
        print("replaying %s: %s" % (args.replay, json.dumps(rp["obligation"], indent=1)))
        want_key = rp["key"]
    else:
        want_key = None
    if not args.property:
        ap.error("--property or --replay required")
    prop = args.property

    try:
        project = Project(args.repo)
        run = run_property(prop, project, args.tier)
        selftest = None
        if args.tier == "thorough" and not args.no_selftest:
            from selftest import harness
            selftest = harness.run_for_property(prop, args.repo, seed=seed)
        code, ev, lines = report.finish(run, HERE, KNOWN, t0, seed=seed, selftest=selftest,
                                        write=not args.no_write)
        if want_key is not None:
            still = [o for o in run.obs if o.key == want_key and o.verdict == report.VIOLATED]
            print("replay: construct %s" % ("still violates" if still else "no longer violates"))
        return code
    except AnalysisError as e:
        print("ANALYSIS-ERROR property=%s %s" % (prop, e))
        _write_error_evidence(prop, args, t0, seed, str(e))
        return 2
    except Exception:
        tb = traceback.format_exc()
        print("ANALYSIS-ERROR property=%s analyser crashed:\n%s" % (prop, tb))
        _write_error_evidence(prop, args, t0, seed, tb.splitlines()[-1])
        return 2


def _write_error_evidence(prop, args, t0, seed, msg):
    if args.no_write:
        return
    os.makedirs(os.path.join(HERE, "evidence"), exist_ok=True)
    ev = {"property_id": prop, "tier": args.tier, "seed": seed, "level": "other",
          "coverage": {"explanation": "analysis error: " + msg, "obligations": 0, "discharged": 0,
                       "samples": []},
          "wall_s": round(time.time() - t0, 3), "violations": 0}
    with open(os.path.join(HERE, "evidence", prop + ".json"), "w") as f:
        json.dump(ev, f, indent=1)


if __name__ == "__main__":
    sys.exit(main())
